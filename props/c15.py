# C15 Point-defect insertion changes only the defect site and records the mapping
import itertools, math
import numpy as np
from vlib.run import Case
from symx import core as sx
from symx.core import var, assume, eq, le, sa, band, bor, bnot, alleq
from props.c01 import expect_vects

META = dict(
    explanation='atomman.defect.vacancy/interstitial/substitutional/dumbbell/point are executed (through System.dvect on the re-translated dvect kernel, Atoms indexing, deepcopy) on a symbolic cell with origin, 3 atoms with symbolic positions, symbolic integer types and a symbolic extra property; the site is given by a symbolic integer index (all values in [-5,4] via concretisation) or by a symbolic position near an atom, also through a periodic image and in box-relative coordinates.',
    functions=['atomman/defect/point.py:point,vacancy,interstitial,substitutional,dumbbell', 'atomman/core/System.py:System.dvect,__init__,atoms_prop', 'atomman/core/Atoms.py:__getitem__,__deepcopy__,PropertyDict.__setitem__',
               'atomman/core/dvect.pyx:dvect', 'atomman/core/Box.py:position_relative_to_cartesian'],
    bounds=dict(quick='3 atoms; every integer ptd_id in [-5,4]; positions: within 0.005 per coordinate of an atom (atol 0.01) with the other atoms at least 0.5 away, or at least 0.5 from every atom; lattice image shifts n in {-1,0,1} along one periodic direction; scale True/False; two successive vacancies',
                thorough='same with 4 atoms and all image shifts in a fully periodic concrete cell'),
    outside=['more than 4 atoms', 'IEEE-754 rounding at the atol boundary', 'default atol (0.01 angstrom in working units): atol is passed explicitly'],
    lemmas=[], cuts=[], assumptions=['atoms pairwise separated by >= 0.5 in the x coordinate (keeps "unique atom within atol" decidable)'], trusted=['pyx2py translator (validated in C02)'],
)
BIND = ['atomman.core.Box', 'atomman.core.System', 'atomman.core.Atoms', 'atomman.defect.point']
KER = ['dvect']
NA = 3
ATOL = 0.01


def mk_system(pbc, concrete_cell=False):
    import atomman as am
    if concrete_cell:
        lx, ly, lz, xy, xz, yz = 6.0, 5.0, 4.0, 0.5, 0.0, -0.3; O = [0.3, -0.2, 0.1]
    else:
        lx, ly, lz = [var(n, 4, 10) for n in ('lx', 'ly', 'lz')]
        xy, xz, yz = [var(n, -1, 1, deadzone=0.001) for n in ('xy', 'xz', 'yz')]
        O = [var(n, 0.5, 2) for n in ('ox', 'oy', 'oz')]          # non-zero origin (matters for scale=True)
    box = am.Box(lx=lx, ly=ly, lz=lz, xy=xy, xz=xz, yz=yz, origin=O)
    V = expect_vects(lx, ly, lz, xy, xz, yz)
    # atoms: x coordinates in disjoint bands (pairwise >= 0.5 apart), y, z free
    P = [[var(f'p{k}x', 0.2 + 1.0 * k, 0.7 + 1.0 * k), var(f'p{k}y', -1, 1), var(f'p{k}z', -1, 1)] for k in range(NA)]
    T = [var(f't{k}', 1, 2, integer=True) for k in range(NA)]
    Q = [var(f'q{k}', -5, 5) for k in range(NA)]
    s = am.System(atoms=am.Atoms(pos=sa(P), atype=sa(T) if sx.symbolic_mode() else np.array(T), charge=sa(Q)), box=box, pbc=pbc, symbols=['Al', 'Cu'])
    return s, P, T, Q, V, O


def rows_equal(d, k_new, P, T, Q, k_old, tag):
    return band(*[eq(d.atoms.pos[k_new, j], P[k_old][j]) for j in range(3)], eq(d.atoms.atype[k_new], T[k_old]), eq(d.atoms.charge[k_new], Q[k_old]))


def untouched(s, P, T, Q):
    return band(s.natoms == NA, alleq(s.atoms.pos, P), alleq(s.atoms.atype, T), alleq(s.atoms.charge, Q), 'old_id' not in s.atoms_prop())


def check_result(kind, d, s, k, P, T, Q, V, O, extra):
    """obligations for a defect at original index k"""
    ob = []
    surv = [i for i in range(NA) if i != k] if kind in ('v', 's', 'db') else list(range(NA))
    want_n = {'v': NA - 1, 'i': NA + 1, 's': NA, 'db': NA + 1}[kind]
    ob.append((f'{kind}@{k}: atom count', d.natoms == want_n))
    if d.natoms != want_n: return ob
    ob.append((f'{kind}@{k}: survivors unchanged and in their original order', band(*[rows_equal(d, n, P, T, Q, i, '') for n, i in enumerate(surv)])))
    ob.append((f'{kind}@{k}: old_id identifies each surviving atom', band(*[eq(d.atoms.old_id[n], i) for n, i in enumerate(surv)])))
    ob.append((f'{kind}@{k}: same cell, pbc, symbols', band(alleq(d.box.vects, s.box.vects), alleq(d.box.origin, s.box.origin), tuple(bool(x) for x in d.pbc) == tuple(bool(x) for x in s.pbc), tuple(d.symbols)[:len(s.symbols)] == tuple(s.symbols))))
    if kind == 'i':
        pos, at, q = extra
        ob.append((f'i: new atom last with the requested position, type and property; old_id == natoms', band(*[eq(d.atoms.pos[-1, j], pos[j]) for j in range(3)], eq(d.atoms.atype[-1], at), eq(d.atoms.charge[-1], q), eq(d.atoms.old_id[-1], NA))))
    if kind == 's':
        at, q = extra
        ob.append((f's@{k}: substituted atom last, same position, new type and property, old_id == {k}', band(*[eq(d.atoms.pos[-1, j], P[k][j]) for j in range(3)], eq(d.atoms.atype[-1], at), eq(d.atoms.charge[-1], q), eq(d.atoms.old_id[-1], k))))
    if kind == 'db':
        dbc, q = extra
        ob.append((f'db@{k}: two atoms last at pos -/+ db_vect; first keeps type/property/old_id, second gets the given property and a new old_id',
                   band(*[eq(d.atoms.pos[-2, j], P[k][j] - dbc[j]) for j in range(3)], *[eq(d.atoms.pos[-1, j], P[k][j] + dbc[j]) for j in range(3)],
                        eq(d.atoms.atype[-2], T[k]), eq(d.atoms.atype[-1], T[k]), eq(d.atoms.charge[-2], Q[k]), eq(d.atoms.charge[-1], q),
                        eq(d.atoms.old_id[-2], k), eq(d.atoms.old_id[-1], NA))))
    return ob


def run_defect(kind, s, site_kw, scale, extra_in, use_point):
    import atomman.defect as dfc
    if kind == 'v':
        return dfc.point(s, ptd_type='v', scale=scale, atol=ATOL, **site_kw) if use_point else dfc.vacancy(s, scale=scale, atol=ATOL, **site_kw)
    if kind == 'i':
        pos, at, q = extra_in
        return dfc.point(s, ptd_type='i', pos=pos, scale=scale, atol=ATOL, atype=at, charge=q) if use_point else dfc.interstitial(s, pos, scale=scale, atol=ATOL, atype=at, charge=q)
    if kind == 's':
        at, q = extra_in
        return dfc.point(s, ptd_type='s', scale=scale, atol=ATOL, atype=at, charge=q, **site_kw) if use_point else dfc.substitutional(s, atype=at, scale=scale, atol=ATOL, charge=q, **site_kw)
    if kind == 'db':
        db, q = extra_in
        return dfc.point(s, ptd_type='db', db_vect=db, scale=scale, atol=ATOL, charge=q, **site_kw) if use_point else dfc.dumbbell(s, db_vect=db, scale=scale, atol=ATOL, charge=q, **site_kw)


def h_byid(kind, scale, use_point):
    def fn():
        s, P, T, Q, V, O = mk_system((False, False, False))
        pid = var('ptd_id', -5, 4, integer=True)
        newt = 3; newq = var('newq', -5, 5)
        db = [var(f'db{j}', -0.3, 0.3) for j in range(3)]
        dbc = [sum(db[i] * V[i][j] for i in range(3)) for j in range(3)] if scale else db       # a VECTOR: box-relative -> Cartesian without the origin
        extra_in = {'v': None, 's': (newt, newq), 'db': (sa(db), newq)}[kind]
        try:
            d = run_defect(kind, s, dict(ptd_id=pid), scale, extra_in, use_point)
        except ValueError:
            ok = bor(pid < -NA, pid >= NA)
            return [('index refused only when out of range', ok if sx.symbolic_mode() else bool(pid < -NA or pid >= NA)), ('input untouched', untouched(s, P, T, Q))]
        k = int(pid) % NA if not sx.symbolic_mode() else None
        if sx.symbolic_mode():
            k = sx.ctx().concretize(pid, what='ptd_id') % NA
        ob = [('accepted index is in range', band(le(-NA, pid), le(pid, NA - 1)))]
        ob += check_result(kind, d, s, k, P, T, Q, V, O, {'v': None, 's': (newt, newq), 'db': (dbc, newq)}[kind])
        ob.append(('input system untouched', untouched(s, P, T, Q)))
        return ob
    return fn


def h_bypos(kind, scale, k, shift, pbc, concrete_cell):
    """site given by a position within atol of atom k, displaced by `shift` cell vectors along periodic directions"""
    def fn():
        s, P, T, Q, V, O = mk_system(pbc, concrete_cell)
        dl = [var(f'dl{j}', -0.005, 0.005) for j in range(3)]
        cart = [P[k][j] + dl[j] + sum(shift[i] * V[i][j] for i in range(3)) for j in range(3)]
        if scale:
            # box-relative coordinates of that point (harness-side inverse for the LAMMPS-form cell)
            q = [cart[j] - O[j] for j in range(3)]
            sz = q[2] / V[2][2]; sy = (q[1] - sz * V[2][1]) / V[1][1]; sx_ = (q[0] - sy * V[1][0] - sz * V[2][0]) / V[0][0]
            given = [sx_, sy, sz]
        else:
            given = cart
        newt = 3; newq = var('newq', -5, 5)
        db = [var(f'db{j}', -0.3, 0.3) for j in range(3)]
        dbc = [sum(db[i] * V[i][j] for i in range(3)) for j in range(3)] if scale else db
        extra_in = {'v': None, 's': (newt, newq), 'db': (sa(db), newq)}[kind]
        d = run_defect(kind, s, dict(pos=sa(given)), scale, extra_in, False)
        ob = check_result(kind, d, s, k, P, T, Q, V, O, {'v': None, 's': (newt, newq), 'db': (dbc, newq)}[kind])
        byid = run_defect(kind, s, dict(ptd_id=k), scale, extra_in, False)
        ob.append((f'{kind}: selecting by position == selecting by index {k}', band(d.natoms == byid.natoms, alleq(d.atoms.pos, byid.atoms.pos), alleq(d.atoms.atype, byid.atoms.atype),
                                                                                  alleq(d.atoms.charge, byid.atoms.charge), alleq(d.atoms.old_id, byid.atoms.old_id))))
        ob.append(('input system untouched', untouched(s, P, T, Q)))
        return ob
    return fn


def h_interstitial(scale, occupied, pbc=(False, False, False), image=0):
    """image: the site is given displaced by image x the first cell vector; it is occupied through that image exactly when
    the first direction is periodic"""
    def fn():
        s, P, T, Q, V, O = mk_system(pbc)
        newt = 2; newq = var('newq', -5, 5)
        if occupied:
            dl = [var(f'dl{j}', -0.005, 0.005) for j in range(3)]
            cart = [P[1][j] + dl[j] + image * V[0][j] for j in range(3)]
        elif image:
            # next to the image of atom 1 along a NON-periodic direction: an empty site
            dl = [var(f'dl{j}', -0.005, 0.005) for j in range(3)]
            cart = [P[1][j] + dl[j] + image * V[0][j] for j in range(3)]
        else:
            cart = [var('ix', 3.4, 3.9), var('iy', -1, 1), var('iz', -1, 1)]          # x band disjoint from every atom (>= 0.5 away)
        if scale:
            q = [cart[j] - O[j] for j in range(3)]
            sz = q[2] / V[2][2]; sy = (q[1] - sz * V[2][1]) / V[1][1]; sx_ = (q[0] - sy * V[1][0] - sz * V[2][0]) / V[0][0]
            given = [sx_, sy, sz]
        else:
            given = cart
        try:
            d = run_defect('i', s, {}, scale, (sa(given), newt, newq), False)
        except ValueError:
            return [('interstitial refused only at an occupied site', occupied), ('input untouched', untouched(s, P, T, Q))]
        if occupied: return [('occupied interstitial site refused', False)]
        ob = check_result('i', d, s, None, P, T, Q, V, O, (cart, newt, newq))
        ob.append(('input system untouched', untouched(s, P, T, Q)))
        return ob
    return fn


def h_absent(kind, image=0):
    """no atom within atol of the position: refused (image: the position is one cell vector away from atom 1 along a
    NON-periodic direction - only periodic images count)"""
    def fn():
        s, P, T, Q, V, O = mk_system((False, False, False))
        if image:
            dl = [var(f'dl{j}', -0.005, 0.005) for j in range(3)]
            pos = [P[1][j] + dl[j] + image * V[0][j] for j in range(3)]
        else:
            pos = [var('ix', 3.4, 3.9), var('iy', -1, 1), var('iz', -1, 1)]
        try:
            run_defect(kind, s, dict(pos=sa(pos)), False, {'v': None, 's': (3, 0.5), 'db': (sa([0.1, 0, 0]), 0.5)}[kind], False)
        except ValueError:
            return [(f'{kind}: absent site refused', True), ('input untouched', untouched(s, P, T, Q))]
        return [(f'{kind}: absent site refused', False)]
    return fn


def h_substitutional_same_type():
    def fn():
        import atomman.defect as dfc
        s, P, T, Q, V, O = mk_system((False, False, False))
        at = var('newtype', 1, 2, integer=True)
        try:
            d = dfc.substitutional(s, ptd_id=1, atype=at, atol=ATOL)
        except ValueError:
            return [('substitution refused only if the atom already has the requested type', eq(at, T[1]))]
        return [('substitution with the same type is refused', bnot(eq(at, T[1])) if sx.symbolic_mode() else at != T[1]), ('new type set', eq(d.atoms.atype[-1], at))]
    return fn


def h_two_vacancies():
    """old_id composes over successive insertions"""
    def fn():
        import atomman.defect as dfc
        s, P, T, Q, V, O = mk_system((False, False, False))
        i = var('i', 0, 2, integer=True); j = var('j', 0, 1, integer=True)
        d1 = dfc.vacancy(s, ptd_id=i, atol=ATOL)
        d2 = dfc.vacancy(d1, ptd_id=j, atol=ATOL)
        ic = sx.ctx().concretize(i) if sx.symbolic_mode() else int(i); jc = sx.ctx().concretize(j) if sx.symbolic_mode() else int(j)
        left = [k for k in range(NA) if k != ic]; left.pop(jc)
        ob = [('one atom left', d2.natoms == 1)]
        if d2.natoms == 1:
            ob.append(('old_id of the remaining atom is its ORIGINAL index (composition)', eq(d2.atoms.old_id[0], left[0])))
            ob.append(('remaining atom unchanged', rows_equal(d2, 0, P, T, Q, left[0], '')))
        # an interstitial after a vacancy: its old_id is max(old_id)+1
        d3 = dfc.interstitial(d1, sa([3.6, 0.0, 0.0]), atol=ATOL)
        mx = max(k for k in range(NA) if k != ic)
        ob.append(('interstitial after vacancy: survivors keep their original old_id, new atom gets max+1', band(d3.natoms == NA, eq(d3.atoms.old_id[-1], mx + 1), *[eq(d3.atoms.old_id[n], k) for n, k in enumerate([k for k in range(NA) if k != ic])])))
        return ob
    return fn


def cases(tier, seed=0):
    cs = []
    for kind in ('v', 's', 'db'):
        for scale in ((False, True) if kind == 'db' else (False,)):
            for use_point in (False, True):
                if use_point and (scale or tier == 'quick' and kind == 's'): continue
                cs.append(Case(f'byid_{kind}{"_scaled" if scale else ""}{"_point" if use_point else ""}', h_byid(kind, scale, use_point), bind=BIND, kernels=KER, maxcases=32,
                               budget_s=150, timeout_ms=15000, max_paths=200, descr=f'{kind} by symbolic integer index in [-5,4], scale={scale}, via {"point()" if use_point else "the specific function"}'))
    for kind in ('v', 's', 'db'):
        for scale in (False, True):
            cs.append(Case(f'bypos_{kind}{"_scaled" if scale else ""}_FFF', h_bypos(kind, scale, 1, (0, 0, 0), (False, False, False), False), bind=BIND, kernels=KER, maxcases=32,
                           budget_s=150, timeout_ms=15000, max_paths=200, descr=f'{kind} by position near atom 1, scale={scale}, symbolic cell'))
    for shift in ((1, 0, 0), (-1, 0, 0)):
        cs.append(Case(f'bypos_v_image{shift[0]}_TFF', h_bypos('v', False, 2 if shift[0] > 0 else 0, shift, (True, False, False), False), bind=BIND, kernels=KER, maxcases=32,
                       budget_s=150, timeout_ms=15000, max_paths=200, descr=f'vacancy by position given through the periodic image {shift}, symbolic cell'))
    cs.append(Case('bypos_s_image_TTT', h_bypos('s', True, 1, (1, -1, 0), (True, True, True), True), bind=BIND, kernels=KER, maxcases=32, budget_s=170, timeout_ms=15000, max_paths=200,
                   descr='substitutional by box-relative position through image (1,-1,0) in a fully periodic concrete cell'))
    for scale in (False, True):
        for occ in (False, True):
            cs.append(Case(f'interstitial{"_scaled" if scale else ""}{"_occupied" if occ else ""}', h_interstitial(scale, occ), bind=BIND, kernels=KER, maxcases=32, budget_s=150, timeout_ms=15000,
                           max_paths=200, descr=f'interstitial at a {"occupied" if occ else "free"} site, scale={scale}'))
    for kind in ('v', 's', 'db'):
        cs.append(Case(f'absent_{kind}', h_absent(kind), bind=BIND, kernels=KER, maxcases=32, budget_s=120, timeout_ms=15000, descr=f'{kind}: no atom within atol of the position'))
    cs.append(Case('interstitial_occupied_through_image_TFF', h_interstitial(False, True, (True, False, False), 1), bind=BIND, kernels=KER, maxcases=32, budget_s=150, timeout_ms=15000,
                   descr='interstitial site occupied through a periodic image: refused'))
    cs.append(Case('interstitial_scaled_occupied_through_image_TFF', h_interstitial(True, True, (True, False, False), -1), bind=BIND, kernels=KER, maxcases=32, budget_s=150, timeout_ms=15000,
                   descr='interstitial site (box-relative, outside [0,1)) occupied through a periodic image: refused'))
    cs.append(Case('interstitial_free_next_to_nonperiodic_image_FFF', h_interstitial(False, False, (False, False, False), 1), bind=BIND, kernels=KER, maxcases=32, budget_s=150, timeout_ms=15000,
                   descr='a site one cell vector away from an atom along a non-periodic direction is free'))
    for kind in ('v', 's'):
        cs.append(Case(f'absent_{kind}_nonperiodic_image', h_absent(kind, 1), bind=BIND, kernels=KER, maxcases=32, budget_s=120, timeout_ms=15000, descr=f'{kind}: position one cell vector away from an atom along a non-periodic direction holds no atom'))
    cs.append(Case('substitutional_same_type', h_substitutional_same_type(), bind=BIND, kernels=KER, budget_s=120, timeout_ms=15000, descr='substitution with the atom\'s own type refused'))
    cs.append(Case('two_insertions', h_two_vacancies(), bind=BIND, kernels=KER, budget_s=150, timeout_ms=15000, descr='old_id composes over two successive insertions'))
    return cs
