# C16 Miller conversions are lossless; plane normal is the reciprocal-lattice vector
import itertools, math
import numpy as np
from vlib.run import Case
from symx import core as sx
from symx.core import var, assume, eq, le, sa, band, bor, alleq, close
from props.c01 import lammps_cell, general_cell, expect_vects, angle_from_cos, abc_params

META = dict(
    explanation='atomman.tools.miller (3<->4 index maps, crystal->Cartesian vectors and plane normals, primitive<->conventional maps, reduce_indices, fromstring) and the Box family tests are executed: index maps on symbolic real indices of several leading shapes, plane normals for every integer plane in a bound on a symbolic cell, centring maps on symbolic indices, family identification on cells built by the family constructors with symbolic generic parameters.',
    functions=['atomman/tools/miller.py:plane3to4,plane4to3,vector3to4,vector4to3,vector_crystal_to_cartesian,plane_crystal_to_cartesian,vector_primitive_to_conventional,vector_conventional_to_primitive,reduce_indices,fromstring,all_indices',
               'atomman/core/Box.py:Box.iscubic..istriclinic,identifyfamily,vector_crystal_to_cartesian,plane_crystal_to_cartesian', 'atomman/tools/vect_angle.py:vect_angle'],
    bounds=dict(quick='index maps: all real indices, shapes (3|4,), (2,3|4), (2,2,3|4); plane normals: all integer planes with |h|,|k|,|l|<=2 (124 planes, all seven zero patterns) on every LAMMPS-form cell, 4-index planes with |h|,|k|<=2,|l|<=1 on every hexagonal cell (a, c symbolic); 8 centring settings on real indices; families: generic parameters differing by >= 1% / cosines by >= 0.01',
                thorough='planes up to |index|<=4 and general right-handed 3x3 cells'),
    outside=['fromstring and reduce_indices are decided by exhaustive concrete enumeration inside the bound (np.fromstring / np.gcd are C boundaries); reported as enumerated samples, not solver verdicts',
             'IEEE-754 rounding'],
    lemmas=['L1 arccos facts: range, monotonicity, exact values and two-sided Lipschitz bounds at 0 and +-1/2 (symx.opaque axioms)', 'L5 numpy.lcm returns a positive common multiple (executed concretely)'],
    cuts=[], assumptions=['dead-zone assumption on tilts (see C01)'], trusted=[],
)
BIND = ['atomman.core.Box', 'atomman.tools.miller', 'atomman.tools.vect_angle', 'atomman.tools.crystalsystem']


def idx(shape, tag='i'):
    a = np.empty(shape, dtype=object)
    for k in np.ndindex(shape):
        a[k] = var(tag + ''.join(map(str, k)), -50, 50)
    return a


def h_maps(lead, aslist):
    def fn():
        from atomman.tools import miller
        ob = []
        I3 = idx(lead + (3,))
        arg = I3.tolist() if aslist else sa(I3)
        for nm, f34, f43 in (('vector', miller.vector3to4, miller.vector4to3), ('plane', miller.plane3to4, miller.plane4to3)):
            four = f34(arg)
            ob.append((f'{nm}3to4 shape', np.shape(four) == lead + (4,)))
            if np.shape(four) != lead + (4,): continue
            ob.append((f'{nm}3to4: first three indices sum to zero', band(*[eq(four[k + (0,)] + four[k + (1,)] + four[k + (2,)], 0) for k in np.ndindex(lead)])))
            back = f43(four.tolist() if aslist else four)
            ob.append((f'{nm}4to3({nm}3to4(x)) == x', band(np.shape(back) == lead + (3,), alleq(back, I3))))
        # 4 -> 3 -> 4 on the constraint surface u+v+t = 0
        I4 = np.empty(lead + (4,), dtype=object)
        for k in np.ndindex(lead):
            u = var('u' + ''.join(map(str, k)), -50, 50); v = var('v' + ''.join(map(str, k)), -50, 50); w = var('w' + ''.join(map(str, k)), -50, 50)
            I4[k + (0,)] = u; I4[k + (1,)] = v; I4[k + (2,)] = -(u + v); I4[k + (3,)] = w
        arg4 = I4.tolist() if aslist else sa(I4)
        for nm, f34, f43 in (('vector', miller.vector3to4, miller.vector4to3), ('plane', miller.plane3to4, miller.plane4to3)):
            three = f43(arg4)
            again = f34(three)
            ob.append((f'{nm}3to4({nm}4to3(x)) == x on u+v+t=0', band(np.shape(again) == lead + (4,), alleq(again, I4))))
        return ob
    return fn


def h_maps_refuse():
    def fn():
        from atomman.tools import miller
        u, v, t, w = [var(n, -50, 50) for n in 'uvtw']
        if sx.symbolic_mode(): assume((u + v + t >= 0.001) | (u + v + t <= -0.001))
        ob = []
        for nm, f in (('vector4to3', miller.vector4to3), ('plane4to3', miller.plane4to3)):
            try:
                f(sa([u, v, t, w])); ob.append((f'{nm} refuses u+v+t != 0', False))
            except ValueError:
                ob.append((f'{nm} refuses u+v+t != 0', True))
        for nm, f, n in (('vector3to4', miller.vector3to4, 4), ('plane3to4', miller.plane3to4, 4), ('vector4to3', miller.vector4to3, 3)):
            try:
                f(sa([u, v, t, w][:n])); ob.append((f'{nm} refuses wrong trailing dimension', False))
            except ValueError:
                ob.append((f'{nm} refuses wrong trailing dimension', True))
        return ob
    return fn


def hex_box():
    from atomman import Box
    a = var('a', 1, 100); c = var('c', 1, 100)
    if sx.symbolic_mode(): assume((c - a >= 0.01) | (a - c >= 0.01))
    return Box.hexagonal(a, c), a, c


def h_hex_direction():
    """[uvtw] and its three-index form denote the same Cartesian direction u a1 + v a2 + t a3 + w c, a3 = -(a1+a2)"""
    def fn():
        from atomman.tools import miller
        box, a, c = hex_box()
        V = box.vects
        u, v, w = [var(n, -20, 20) for n in 'uvw']; t = -(u + v)
        got = miller.vector_crystal_to_cartesian(sa([u, v, t, w]), box)
        a3 = [-(V[0][j] + V[1][j]) for j in range(3)]
        want = [u * V[0][j] + v * V[1][j] + t * a3[j] + w * V[2][j] for j in range(3)]
        ob = [('[uvtw] -> Cartesian == u a1 + v a2 + t a3 + w c', band(np.shape(got) == (3,), *[eq(got[j], want[j], 1e4) for j in range(3)]))]
        three = miller.vector4to3(sa([u, v, t, w]))
        got3 = miller.vector_crystal_to_cartesian(three, box)
        ob.append(('three-index form gives the same Cartesian vector', alleq(got3, got)))
        got2 = box.vector_crystal_to_cartesian(sa([[u, v, w], [w, u, v]]))
        ob.append(('Box.vector_crystal_to_cartesian on shape (2,3) == indices . vects', band(np.shape(got2) == (2, 3), *[eq(got2[0, j], u * V[0][j] + v * V[1][j] + w * V[2][j], 1e4) for j in range(3)])))
        return ob
    return fn


def h_nonhex_refuse():
    def fn():
        from atomman.tools import miller
        from atomman import Box
        a = var('a', 1, 100)
        box = Box.cubic(a)
        ob = []
        for nm, f in (('vector_crystal_to_cartesian', miller.vector_crystal_to_cartesian), ('plane_crystal_to_cartesian', miller.plane_crystal_to_cartesian)):
            try:
                f(np.array([1, 0, -1, 0]), box); ob.append((f'{nm}: four indices with a non-hexagonal box refused', False))
            except ValueError:
                ob.append((f'{nm}: four indices with a non-hexagonal box refused', True))
        try:
            miller.plane_crystal_to_cartesian(np.array([0, 0, 0]), box); ob.append(('zero plane refused', False))
        except ValueError:
            ob.append(('zero plane refused', True))
        try:
            miller.plane_crystal_to_cartesian(np.array([0.5, 1, 0]), box); ob.append(('non-integer plane refused', False))
        except ValueError:
            ob.append(('non-integer plane refused', True))
        return ob
    return fn


def normal_obligations(n, hkl, V, tag):
    """n is the unit vector along h b x c + k c x a + l a x b (= V * (h a* + k b* + l c*), V > 0)"""
    cr = lambda a, b: [a[1] * b[2] - a[2] * b[1], a[2] * b[0] - a[0] * b[2], a[0] * b[1] - a[1] * b[0]]
    bc, ca, ab = cr(V[1], V[2]), cr(V[2], V[0]), cr(V[0], V[1])
    G = [hkl[0] * bc[j] + hkl[1] * ca[j] + hkl[2] * ab[j] for j in range(3)]
    x = cr(list(n), G)
    S = 1e8
    ob = [(f'{tag}: normal x (h a* + k b* + l c*) == 0', band(*[eq(x[j], 0, S) for j in range(3)])),
          (f'{tag}: unit length', eq(sum(n[j] * n[j] for j in range(3)), 1))]
    dot = sum(n[j] * G[j] for j in range(3))
    ob.append((f'{tag}: same sense as the reciprocal-lattice vector', (dot > 0) if sx.is_sym(dot) else dot > 0))
    return ob


def planes(maxi, maxl=None):
    maxl = maxi if maxl is None else maxl
    return [p for p in itertools.product(range(-maxi, maxi + 1), range(-maxi, maxi + 1), range(-maxl, maxl + 1)) if any(p)]


def h_normals(plist, general):
    def fn():
        from atomman import Box
        if general:
            V = general_cell(); box = Box(vects=V)
        else:
            lx, ly, lz, xy, xz, yz = lammps_cell(); V = expect_vects(lx, ly, lz, xy, xz, yz)
            box = Box(lx=lx, ly=ly, lz=lz, xy=xy, xz=xz, yz=yz)
        ob = []
        for p in plist:
            n = box.plane_crystal_to_cartesian(np.array(p))
            if np.shape(n) != (3,):
                ob.append((f'plane {p}: shape', False)); continue
            ob += normal_obligations(n, p, V, f'plane {p}')
        # array input: rows handled independently
        two = box.plane_crystal_to_cartesian(np.array([plist[0], plist[-1]]))
        one0 = box.plane_crystal_to_cartesian(np.array(plist[0])); one1 = box.plane_crystal_to_cartesian(np.array(plist[-1]))
        ob.append(('array of planes (2,3): row by row', band(np.shape(two) == (2, 3), alleq(two[0], one0), alleq(two[1], one1))))
        return ob
    return fn


def h_normals_hex(plist):
    def fn():
        box, a, c = hex_box()
        V = box.vects
        ob = []
        for (h, k, l) in plist:
            n = box.plane_crystal_to_cartesian(np.array([h, k, -(h + k), l]))
            ob += normal_obligations(n, (h, k, l), [[V[i][j] for j in range(3)] for i in range(3)], f'plane ({h} {k} {-(h + k)} {l})')
        return ob
    return fn


SETTINGS = ['p', 'a', 'b', 'c', 'i', 'f', 't1', 't2']
def h_centering(lead):
    def fn():
        from atomman.tools import miller
        I = idx(lead + (3,))
        ob = []
        for s in SETTINGS:
            p = miller.vector_conventional_to_primitive(sa(I), s)
            back = miller.vector_primitive_to_conventional(p, s)
            # the t1/t2 matrices hold the binary64 value of 1/3: identity to 1e-9 relative there, exact otherwise
            same = (lambda A, B: band(*[close(x, y, 1e-9, 100.0) for x, y in zip(np.asarray(A, dtype=object).flat, np.asarray(B, dtype=object).flat)])) if s in ('t1', 't2') else alleq
            ob.append((f'setting {s}: primitive_to_conventional(conventional_to_primitive(x)) == x', band(np.shape(back) == lead + (3,), same(back, I))))
            c = miller.vector_primitive_to_conventional(sa(I), s)
            back2 = miller.vector_conventional_to_primitive(c, s)
            ob.append((f'setting {s}: conventional_to_primitive(primitive_to_conventional(x)) == x', same(back2, I)))
        return ob
    return fn


def h_centering_det():
    """concrete: determinants integer-consistent (conventional cell holds det(c2p) lattice points)"""
    def fn():
        from atomman.tools import miller
        ob = []
        want = dict(p=1, a=2, b=2, c=2, i=2, f=4, t1=3, t2=3)
        for s in SETTINGS:
            C2P = miller.vector_conventional_to_primitive(np.eye(3), s); P2C = miller.vector_primitive_to_conventional(np.eye(3), s)
            d1 = float(np.linalg.det(C2P)); d2 = float(np.linalg.det(P2C))
            ob.append((f'setting {s}: det(c2p) == {want[s]} lattice points per conventional cell, det(p2c) its inverse, c2p integer',
                       abs(d1 - want[s]) < 1e-9 and abs(d1 * d2 - 1) < 1e-9 and np.allclose(C2P, np.round(C2P))))
        try:
            miller.vector_conventional_to_primitive(np.eye(3), 'x'); ob.append(('unknown setting refused', False))
        except ValueError:
            ob.append(('unknown setting refused', True))
        return ob
    return fn


def h_reduce(maxi):
    """exhaustive concrete enumeration (np.gcd is a C boundary)"""
    def fn():
        from atomman.tools import miller
        bad = 0; n = 0
        allv = np.array([p for p in itertools.product(range(-maxi, maxi + 1), repeat=3) if any(p)])
        red = miller.reduce_indices(allv)
        for v, r in zip(allv, red):
            n += 1
            g = math.gcd(*[abs(int(x)) for x in r])
            k = [int(a) // int(b) for a, b in zip(v, r) if b != 0]
            ok = g == 1 and len(set(k)) == 1 and k[0] > 0 and all((int(b) == 0) == (int(a) == 0) for a, b in zip(v, r)) and all(int(b) * k[0] == int(a) for a, b in zip(v, r))
            bad += not ok
        one = miller.reduce_indices(np.array([2, -4, 6])); four = miller.reduce_indices(np.array([[2, 2, -4, 0], [3, 0, -3, 6]]))
        # arrays of any leading shape: (2,2,3) and (3,2,3) blocks of the same triples
        blk = allv[100:112].reshape(2, 2, 3, 3)[:, :, 0, :]; blk2 = allv[200:206].reshape(3, 2, 3)
        try:
            lead_ok = (miller.reduce_indices(blk).reshape(-1, 3).tolist() == miller.reduce_indices(blk.reshape(-1, 3)).tolist()
                       and miller.reduce_indices(blk2).reshape(-1, 3).tolist() == miller.reduce_indices(blk2.reshape(-1, 3)).tolist())
        except Exception as e:
            lead_ok = False
        # all Miller-Bravais rows [u v t w] with t = -(u+v): coprime over ALL four indices, same direction
        bad4 = 0; n4 = 0
        rows4 = np.array([[u, v, -(u + v), w] for u, v, w in itertools.product(range(-maxi, maxi + 1), repeat=3) if any((u, v, w))])
        red4 = miller.reduce_indices(rows4)
        for v, r in zip(rows4.tolist(), np.asarray(red4).tolist()):
            n4 += 1
            g = math.gcd(*[abs(int(x)) for x in v])
            bad4 += [int(x) for x in r] != [int(x) // g for x in v]
        # 3 <-> 4 index vectors for INTEGER-typed input (the 4-index form has thirds): formula and round trip
        badv = 0
        for v in itertools.product(range(-2, 3), repeat=3):
            vi = np.array(v, dtype=int)
            v4 = miller.vector3to4(vi)
            want = [(2 * v[0] - v[1]) / 3, (2 * v[1] - v[0]) / 3, -(v[0] + v[1]) / 3, v[2]]
            badv += not (np.allclose(np.asarray(v4, float), want, atol=1e-12) and np.allclose(np.asarray(miller.vector4to3(v4), float), v, atol=1e-12))
        blk34 = miller.vector3to4(np.array([[1, 0, 0], [0, 1, 0], [1, 1, 1]], dtype=int))
        ai = miller.all_indices(2); air = miller.all_indices(2, reduce=True)
        return [(f'reduce_indices: coprime positive-multiple for all {n} non-zero triples with |index|<={maxi}', bad == 0),
                ('reduce_indices on arrays with two leading dimensions, shapes (2,2,3) and (3,2,3), equals the row-by-row result', bool(lead_ok)),
                (f'reduce_indices on all {n4} Miller-Bravais rows [u v -(u+v) w] with |u|,|v|,|w|<={maxi}: divided by the gcd of all four indices', bad4 == 0),
                ('vector3to4 / vector4to3 on integer-typed vectors with |index|<=2: thirds are kept, round trip exact', badv == 0 and np.allclose(np.asarray(blk34, float), [[2 / 3, -1 / 3, -1 / 3, 0], [-1 / 3, 2 / 3, -1 / 3, 0], [1 / 3, 1 / 3, -2 / 3, 1]])),
                ('reduce_indices on a single vector and on 4-index rows', list(one) == [1, -2, 3] and four.tolist() == [[1, 1, -2, 0], [1, 0, -1, 2]]),
                ('all_indices(2) lists every non-zero triple once; reduce=True keeps the coprime ones', len(ai) == 124 and len(set(map(tuple, ai.tolist()))) == 124 and all(math.gcd(*[abs(x) for x in r]) == 1 for r in air.tolist()) and len(set(map(tuple, air.tolist()))) == len(air))]
    return fn


def h_fromstring():
    def fn():
        from atomman.tools import miller
        bad = 0; n = 0
        br = [('[', ']'), ('(', ')'), ('<', '>'), ('{', '}')]
        for k, vals in enumerate(itertools.product(range(-3, 4), repeat=3)):
            for fr in (None, (1, 2), (1, 3), (2, 3)):
                o, c = br[(k + (fr is not None)) % 4]
                body = ' '.join(str(v) for v in vals)
                s = (f'{fr[0]}/{fr[1]}' if fr else '') + o + body + c
                got = miller.fromstring(s)
                want = np.array(vals, float) * ((fr[0] / fr[1]) if fr else 1)
                n += 1; bad += not (got.shape == (3,) and np.allclose(got, want, atol=1e-12))
        got4 = miller.fromstring('1/3[1 1 -2 0]'); bare = miller.fromstring('1 -1 0')
        return [(f'fromstring parses {n} strings (indices in [-3,3], optional leading fraction, four bracket styles) to the numbers they show', bad == 0),
                ('four-index string with fraction; bare string', np.allclose(got4, np.array([1, 1, -2, 0]) / 3) and np.allclose(bare, [1, -1, 0]))]
    return fn


FAMS = ['cubic', 'hexagonal', 'tetragonal', 'rhombohedral', 'orthorhombic', 'monoclinic', 'triclinic']
def h_family(fam):
    def fn():
        from atomman import Box
        if sx.symbolic_mode() and fam in ('rhombohedral', 'triclinic'): sx.ctx().opaque_congruence = True      # alpha, beta, gamma are arccos of different terms
        a = var('a', 1, 100); b = var('b', 1, 100); c = var('c', 1, 100)
        if sx.symbolic_mode():
            # generic, non-coincident lengths (one ordering; 1% apart, well beyond the 1e-5 relative tolerance)
            assume(b - a >= 0.01 * b); assume(c - b >= 0.01 * c)
        if fam == 'cubic': box = Box.cubic(a)
        elif fam == 'hexagonal': box = Box.hexagonal(a, c)
        elif fam == 'tetragonal': box = Box.tetragonal(a, c)
        elif fam == 'orthorhombic': box = Box.orthorhombic(a, b, c)
        elif fam == 'rhombohedral':
            al, ca = angle_from_cos('cos_alpha', -0.45, 0.95)
            if sx.symbolic_mode():
                assume((ca >= 0.01) | (ca <= -0.01)); assume(al < 120)
                assume(1 + 2 * ca * ca * ca - 3 * ca * ca >= 0.05)
                xy = a * ca; ly = (a * a - xy * xy) ** 0.5; yz = (a * a * ca - xy * xy) / ly
                assume((yz == 0) | (yz >= 0.001) | (yz <= -0.001)); sx.assume_range(ly, 0.3, 100); sx.assume_range(yz, -100, 100)
                lz = (a * a - xy * xy - yz * yz) ** 0.5; sx.assume_range(lz, 0.05, 100)
            box = Box.trigonal(a, al)
        elif fam == 'monoclinic':
            be, cb = angle_from_cos('cos_beta', -0.95, -0.01)
            if sx.symbolic_mode(): assume(be > 90)
            box = Box.monoclinic(a, b, c, be)
        else:
            a, b, c, al, be, ga, ca, cb, cg = abc_params()
            if sx.symbolic_mode():
                assume(b - a >= 0.01 * b); assume(c - b >= 0.01 * c)
                assume(cb - ca >= 0.01); assume(cg - cb >= 0.01)
            box = Box.triclinic(a, b, c, al, be, ga)
        got = box.identifyfamily()
        ob = [(f'cell built by Box.{ "trigonal" if fam == "rhombohedral" else fam} is identified as {fam}', got == fam)]
        # the stand-alone functions of atomman.tools.crystalsystem give the same answer
        from atomman.tools import crystalsystem as cs_
        ob.append((f'tools.crystalsystem.identifyfamily agrees ({fam})', cs_.identifyfamily(box) == fam))
        ob.append((f'tools.crystalsystem.is{fam} is True', bool(getattr(cs_, 'is' + fam)(box))))
        return ob
    return fn


def _chunks(l, n):
    k = max(1, math.ceil(len(l) / n))
    return [l[i:i + k] for i in range(0, len(l), k)]


def cases(tier, seed=0):
    cs = []
    for lead, aslist in (((), False), ((), True), ((2,), False), ((2,), True), ((2, 2), False)):
        cs.append(Case(f'maps_{"x".join(map(str, lead)) or "0"}_{"list" if aslist else "array"}', h_maps(lead, aslist), bind=BIND, budget_s=120,
                       descr=f'3<->4 index maps on real indices, leading shape {lead}, {"list" if aslist else "ndarray"} input'))
    cs.append(Case('maps_refusals', h_maps_refuse(), bind=BIND, budget_s=60, descr='documented refusals of the index maps'))
    cs.append(Case('hex_direction', h_hex_direction(), bind=BIND, budget_s=170, timeout_ms=30000, descr='[uvtw] and [uvw] give the same Cartesian direction in every hexagonal cell'))
    cs.append(Case('nonhex_refusals', h_nonhex_refuse(), bind=BIND, budget_s=120, descr='four indices with a cubic box, zero plane, non-integer plane refused'))
    pl = planes(2) if tier == 'quick' else planes(4)
    for i, ch in enumerate(_chunks(pl, 31 if tier == 'quick' else 64)):
        cs.append(Case(f'normals_{i}', h_normals(ch, False), bind=BIND, budget_s=170 if tier == 'quick' else 900, timeout_ms=30000, weight=3,
                       descr=f'plane normals for {len(ch)} integer planes {ch[0]}..{ch[-1]} on every LAMMPS-form cell'))
    if tier == 'thorough':
        for i, ch in enumerate(_chunks(planes(2), 16)):
            cs.append(Case(f'normalsG_{i}', h_normals(ch, True), bind=BIND, budget_s=900, timeout_ms=60000, descr=f'plane normals on every right-handed 3x3 cell, planes {ch[0]}..{ch[-1]}'))
    hp = planes(2, 1) if tier == 'quick' else planes(3, 2)
    for i, ch in enumerate(_chunks(hp, 6 if tier == 'quick' else 16)):
        cs.append(Case(f'normals_hex_{i}', h_normals_hex(ch), bind=BIND, budget_s=170 if tier == 'quick' else 900, timeout_ms=30000, weight=2,
                       descr=f'Miller-Bravais plane normals in every hexagonal cell, planes {ch[0]}..{ch[-1]}'))
    for lead in ((), (2,)):
        cs.append(Case(f'centering_{"x".join(map(str, lead)) or "0"}', h_centering(lead), bind=BIND, budget_s=120, descr=f'primitive<->conventional maps mutually inverse for 8 settings, leading shape {lead}'))
    cs.append(Case('centering_det', h_centering_det(), concrete_only=True, budget_s=60, descr='determinants of the centring matrices'))
    cs.append(Case('reduce_indices', h_reduce(4 if tier == 'quick' else 6), concrete_only=True, budget_s=120, descr='exhaustive enumeration'))
    cs.append(Case('fromstring', h_fromstring(), concrete_only=True, budget_s=120, descr='exhaustive enumeration of index strings'))
    for f in FAMS:
        cs.append(Case(f'family_{f}', h_family(f), bind=BIND, budget_s=100 if tier == 'quick' else 900, timeout_ms=8000 if tier == 'quick' else 60000, max_paths=12, weight=5 if f == 'triclinic' else 1, allowed_exc=(ValueError,) if f == 'triclinic' else (),
                       descr=f'cell built as {f} with generic parameters is identified as {f}'))
    return cs
