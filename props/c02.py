# C02 Periodic separation is a lattice image of the direct one and the nearest such
import itertools, math
import numpy as np
from vlib.run import Case
from symx import core as sx, kernels
from symx.core import var, assume, eq, le, sa, band, bor, alleq
from props.c01 import lammps_cell, origin, general_cell, expect_vects

META = dict(
    explanation='dvect.pyx and dmag.pyx are re-translated from source to Python (if-converted) and executed on a symbolic cell and symbolic points; System.dvect/dmag and displacement() are executed on top of them. The translation is validated on every run against the extension freshly compiled from the same source.',
    functions=['atomman/core/dvect.pyx:dvect,dvect_c', 'atomman/core/dmag.pyx:dmag,dmag2_c', 'atomman/core/displacement.py:displacement',
               'atomman/core/System.py:System.dvect,System.dmag'],
    bounds=dict(quick='all LAMMPS-form cells (lengths [1,100], tilts 0 or >=1e-3, |t|<=100), any two points (|coordinate|<=1000), all 8 periodicity settings; one-to-one, one-to-many and many-to-many with 2 rows; nearest-image clause: orthogonal cells, both points inside, all n in {-2..2}^3',
                thorough='additionally general right-handed 3x3 cells (det>=1) for the 27-candidate clauses'),
    outside=['IEEE-754 rounding and ties mag_test < mag_d decided in floating point', 'more than 2 rows (rows are independent: the 2-row harness has no cross-row terms)',
             'nearest-image clause for tilted cells (half-width condition) is not decided'],
    lemmas=[], cuts=[],
    assumptions=['dead-zone assumption on tilts (see C01)', 'Cython integer types behave as Python ints within the bounds'],
    trusted=['pyx2py translator (validated against the compiled extension on seeded random inputs each run)'],
)
BIND = ['atomman.core.Box', 'atomman.core.System', 'atomman.core.Atoms', 'atomman.core.displacement']
KER = ['dvect', 'dmag']
PBCS = list(itertools.product([True, False], repeat=3))


def pstr(p): return ''.join('T' if x else 'F' for x in p)


def pts(n, tag):
    return [[var(f'{tag}{k}{"xyz"[i]}', -1000, 1000) for i in range(3)] for k in range(n)]


def mk_cell(general):
    from atomman import Box
    if general:
        V = general_cell(); O = origin(); return Box(vects=V, origin=O), V
    lx, ly, lz, xy, xz, yz = lammps_cell(); O = origin(); V = expect_vects(lx, ly, lz, xy, xz, yz)
    return Box(lx=lx, ly=ly, lz=lz, xy=xy, xz=xz, yz=yz, origin=O), V


def cands(pbc):
    return list(itertools.product(*[(-1, 0, 1) if p else (0,) for p in pbc]))


def h_img(pbc, general, part, nparts, n0, n1, with_dmag=False):
    """27-candidate clauses for dvect (and dmag^2 == |dvect|^2 when with_dmag)"""
    def fn():
        import atomman as am
        box, V = mk_cell(general)
        P0 = pts(n0, 'p'); P1 = pts(n1, 'q')
        d = am.dvect(sa(P0) if n0 > 1 else sa(P0[0]), sa(P1) if n1 > 1 else sa(P1[0]), box, pbc)
        n = max(n0, n1)
        ob = [('dvect shape', np.shape(d) == (n, 3))]
        if np.shape(d) != (n, 3): return ob
        if with_dmag:
            m = am.dmag(sa(P0) if n0 > 1 else sa(P0[0]), sa(P1) if n1 > 1 else sa(P1[0]), box, pbc)
            ob.append(('dmag shape', np.shape(m) == (n,)))
            if np.shape(m) != (n,): return ob
            for r in range(n):
                d2 = sum(d[r, j] * d[r, j] for j in range(3))
                ob.append((f'row {r}: dmag^2 == |dvect|^2', eq(m[r] * m[r], d2, 1e6)))
                ob.append((f'row {r}: dmag >= 0', le(0, m[r])))
            return ob
        C = cands(pbc)
        todo = [c for k, c in enumerate(C) if k % nparts == part]
        for r in range(n):
            p0 = P0[r if n0 > 1 else 0]; p1 = P1[r if n1 > 1 else 0]
            direct = [p1[j] - p0[j] for j in range(3)]
            d2 = sum(d[r, j] * d[r, j] for j in range(3))
            for c in todo:
                cand = [direct[j] + c[0] * V[0][j] + c[1] * V[1][j] + c[2] * V[2][j] for j in range(3)]
                ob.append((f'row {r}: |dvect|^2 <= |direct + {c}.V|^2', le(d2, sum(x * x for x in cand), 1e6)))
            if part == 0:
                anyc = bor(*[band(*[eq(d[r, j], direct[j] + c[0] * V[0][j] + c[1] * V[1][j] + c[2] * V[2][j], 1e3) for j in range(3)]) for c in C])
                ob.append((f'row {r}: dvect - direct is a lattice vector with shifts in {{-1,0,1}} along periodic directions only', anyc))
        return ob
    return fn


def h_nearest(pbc, part=0, nparts=1):
    """orthogonal cell, both points inside: the result is the true nearest image (search radius 2)"""
    def fn():
        import atomman as am
        L = [var(n, 1, 100) for n in ('lx', 'ly', 'lz')]; O = origin()
        box = am.Box(lx=L[0], ly=L[1], lz=L[2], origin=O)
        s0 = [var(f's0{i}', 0, 1) for i in range(3)]; s1 = [var(f's1{i}', 0, 1) for i in range(3)]
        p0 = [O[i] + s0[i] * L[i] for i in range(3)]; p1 = [O[i] + s1[i] * L[i] for i in range(3)]
        d = am.dvect(sa(p0), sa(p1), box, pbc)[0]
        d2 = sum(d[j] * d[j] for j in range(3))
        ob = []
        rng = [range(-2, 3) if p else (0,) for p in pbc]
        # per-axis statement suffices for an orthogonal cell (the squared length is a sum over axes); it is
        # asserted for the full 3-d candidates with |n_k|<=2 grouped by the largest |n_k|
        far = [c for c in itertools.product(*rng) if max(abs(x) for x in c) >= 2]
        for c in far[part::nparts]:
            cand = [p1[j] - p0[j] + c[j] * L[j] for j in range(3)]
            ob.append((f'|d|^2 <= |direct + {c}.V|^2 (beyond the 27 candidates)', le(d2, sum(x * x for x in cand), 1e6)))
        return ob
    return fn


def h_radius_lemma():
    """proven finite radius (no code involved): for an orthogonal cell and both points inside, every lattice
    shift n with some |n_k| >= 2 is at least as long as the shift clamped to {-1,0,1}^3; together with the
    27-candidate optimality decided by the img_* cases this is the nearest-image clause"""
    def fn():
        L = [var(n, 1, 100) for n in ('lx', 'ly', 'lz')]
        s0 = [var(f's0{i}', 0, 1) for i in range(3)]; s1 = [var(f's1{i}', 0, 1) for i in range(3)]
        D = [(s1[i] - s0[i]) * L[i] for i in range(3)]
        ob = []
        for c in itertools.product(range(-2, 3), repeat=3):
            if max(abs(x) for x in c) < 2: continue
            cl = [max(-1, min(1, x)) for x in c]
            far = sum((D[j] + c[j] * L[j]) * (D[j] + c[j] * L[j]) for j in range(3))
            near = sum((D[j] + cl[j] * L[j]) * (D[j] + cl[j] * L[j]) for j in range(3))
            ob.append((f'|direct + {tuple(cl)}.V|^2 <= |direct + {c}.V|^2', le(near, far, 1e6)))
        # all radii, per axis: integer n with |n| >= 2
        n = var('n', integer=True)
        if sx.symbolic_mode():
            for sgn in (1, -1):
                import z3
                cond = (n >= 2) if sgn == 1 else (n <= -2)
                lhs = (D[0] + sgn * L[0]) * (D[0] + sgn * L[0]); rhs = (D[0] + n * L[0]) * (D[0] + n * L[0])
                ob.append((f'per axis, any integer shift n {">=2" if sgn == 1 else "<=-2"}: (D + sign(n) L)^2 <= (D + n L)^2', sx.implies(cond, lhs <= rhs)))
        return ob
    return fn


def h_system(pbc):
    """System.dvect/dmag dispatch (index or position) and displacement()"""
    def fn():
        import atomman as am
        box, V = mk_cell(False)
        P = pts(2, 'p'); Q = pts(2, 'q')
        s0 = am.System(atoms=am.Atoms(pos=sa(P)), box=box, pbc=pbc)
        s1 = am.System(atoms=am.Atoms(pos=sa(Q)), box=box, pbc=pbc)
        ob = []
        ref = am.dvect(sa(P[0]), sa(P[1]), box, pbc)[0]
        ob.append(('System.dvect(0,1) == dvect(pos[0],pos[1])', alleq(s0.dvect(0, 1), ref)))
        ob.append(('System.dvect(pos,pos) == dvect(pos,pos)', alleq(s0.dvect(sa(P[0]), sa(P[1])), ref)))
        ob.append(('System.dvect(0, position)', alleq(s0.dvect(0, sa(P[1])), ref)))
        allv = s0.dvect(0, [0, 1])
        ob.append(('System.dvect(0,[0,1]) rows', band(np.shape(allv) == (2, 3), alleq(allv[1], ref))))
        # mixed forms: a Cartesian position for one argument, atom indices for the other
        ob.append(('System.dvect(position, 1) == dvect(position, pos[1])', alleq(s0.dvect(sa(P[0]), 1), ref)))
        mixed = s0.dvect(sa(P[0]), [0, 1])
        ob.append(('System.dvect(position, [0,1]): one row per addressed atom', band(np.shape(mixed) == (2, 3), alleq(mixed[1], ref)) if np.shape(mixed) == (2, 3) else False))
        refm = am.dmag(sa(P[0]), sa(P[1]), box, pbc)[0]
        ob.append(('System.dmag(0,1) == dmag(pos[0],pos[1])', eq(s0.dmag(0, 1), refm)))
        ob.append(('System.dmag(pos,pos)', eq(s0.dmag(sa(P[0]), sa(P[1])), refm)))
        for refbox in ('final', 'initial'):
            disp = am.displacement(s0, s1, box_reference=refbox)
            ok = np.shape(disp) == (2, 3)
            for r in range(2):
                rr = am.dvect(sa(P[r]), sa(Q[r]), box, pbc)[0]
                ok = band(ok, alleq(disp[r], rr)) if np.shape(disp) == (2, 3) else False
            ob.append((f'displacement(box_reference={refbox!r}) == dvect atom by atom', ok))
        disp = am.displacement(s0, s1, box_reference=None)
        ob.append(('displacement(None) == plain difference', alleq(disp, [[Q[r][j] - P[r][j] for j in range(3)] for r in range(2)])))
        return ob
    return fn


def h_displacement_boxes(variant):
    """the chosen reference system's box AND pbc are used (the two systems differ in both)"""
    def fn():
        import atomman as am
        if variant == 'orthogonal':
            L0 = [var(n, 1, 100) for n in ('lx', 'ly', 'lz')]; L1 = [var(n, 1, 100) for n in ('mx', 'my', 'mz')]
            b0 = am.Box(lx=L0[0], ly=L0[1], lz=L0[2]); b1 = am.Box(lx=L1[0], ly=L1[1], lz=L1[2])
            pbc0, pbc1 = (True, False, False), (False, True, False)
        else:
            b0 = am.Box(lx=3.0, ly=2.5, lz=2.0, xy=0.7, xz=-0.4, yz=0.3); b1 = am.Box(lx=2.2, ly=3.1, lz=2.6, xy=-0.5)
            pbc0, pbc1 = (True, False, True), (False, True, True)
        P = pts(1, 'p'); Q = pts(1, 'q')
        s0 = am.System(atoms=am.Atoms(pos=sa(P)), box=b0, pbc=pbc0)
        s1 = am.System(atoms=am.Atoms(pos=sa(Q)), box=b1, pbc=pbc1)
        ob = []
        for ref, (bx, pb) in (('final', (b1, pbc1)), ('initial', (b0, pbc0))):
            d = am.displacement(s0, s1, ref)[0]
            V = np.asarray(bx.vects, dtype=object)
            direct = [Q[0][j] - P[0][j] for j in range(3)]
            C = cands(pb)
            d2 = sum(d[j] * d[j] for j in range(3))
            # independent statement: a lattice image along the periodic directions of the REFERENCE system only, and the shortest such
            anyc = bor(*[band(*[eq(d[j], direct[j] + c[0] * V[0][j] + c[1] * V[1][j] + c[2] * V[2][j], 1e3) for j in range(3)]) for c in C])
            ob.append((f'{ref!r}: displacement is an image under the reference system\'s box and periodic directions', anyc))
            for c in C:
                cand = [direct[j] + c[0] * V[0][j] + c[1] * V[1][j] + c[2] * V[2][j] for j in range(3)]
                ob.append((f'{ref!r}: not longer than the image {c} of the reference cell', le(d2, sum(x * x for x in cand), 1e6)))
        ob.append(("default is 'final'", alleq(am.displacement(s0, s1)[0], am.displacement(s0, s1, 'final')[0])))
        return ob
    return fn


def tv_kernels(seed, n=300):
    """translator validation: translated .pyx with real numpy == freshly compiled extension"""
    def fn():
        import atomman as am
        rng = np.random.default_rng(seed)
        dv_t = kernels.load_sym('dvect', real_numpy=True); dm_t = kernels.load_sym('dmag', real_numpy=True)
        dv_c = kernels.load_conc('dvect'); dm_c = kernels.load_conc('dmag')
        bad = 0
        for k in range(n):
            L = rng.uniform(1, 5, 3); t = rng.uniform(-2, 2, 3) * (k % 2)
            box = am.Box(lx=L[0], ly=L[1], lz=L[2], xy=t[0], xz=t[1], yz=t[2], origin=rng.uniform(-3, 3, 3))
            pbc = PBCS[k % 8]; m = 1 + k % 3
            p0 = rng.uniform(-6, 6, (m, 3)); p1 = rng.uniform(-6, 6, (m if k % 5 else 1, 3))
            a = np.asarray(dv_t.dvect(p0, p1, box, pbc)); b = np.asarray(dv_c.dvect(p0, p1, box, pbc))
            c = np.asarray(dm_t.dmag(p0, p1, box, pbc)); d = np.asarray(dm_c.dmag(p0, p1, box, pbc))
            if a.shape != b.shape or not np.allclose(a, b, rtol=0, atol=1e-12): bad += 1
            if c.shape != d.shape or not np.allclose(c, d, rtol=0, atol=1e-12): bad += 1
        return [(f'translated dvect/dmag agree with the compiled extension on {n} seeded random systems', bad == 0)]
    return fn


def cases(tier, seed=0):
    cs = [Case('translator_validation', tv_kernels(seed), kernels=KER, concrete_only=True, budget_s=120,
               descr='pyx2py(dvect.pyx, dmag.pyx) vs extension compiled from the same source')]
    for pbc in PBCS:
        npb = sum(pbc)
        nparts = {3: 9, 2: 3, 1: 1, 0: 1}[npb]
        for part in range(nparts):
            cs.append(Case(f'img_{pstr(pbc)}_{part}', h_img(pbc, False, part, nparts, 1, 1), bind=BIND, kernels=KER, maxcases=32,
                           budget_s=170, timeout_ms=60000, weight=3 if npb == 3 else 1,
                           descr=f'pbc {pstr(pbc)}: candidates {part}/{nparts} of the 27-image clauses, all LAMMPS-form cells, any two points'))
    for pbc in PBCS:
        cs.append(Case(f'dmag_{pstr(pbc)}', h_img(pbc, False, 0, 1, 1, 1, with_dmag=True), bind=BIND, kernels=KER, maxcases=32,
                       budget_s=170, timeout_ms=30000 if tier == 'quick' else 120000, descr=f'pbc {pstr(pbc)}: dmag^2 == |dvect|^2, dmag >= 0'))
    # broadcast shapes (2 rows), a cheap periodicity setting
    for (n0, n1) in ((1, 2), (2, 1), (2, 2)):
        cs.append(Case(f'shapes_{n0}x{n1}_TFF', h_img((True, False, False), False, 0, 1, n0, n1), bind=BIND, kernels=KER, maxcases=32,
                       budget_s=170, timeout_ms=60000, descr=f'broadcast {n0} to {n1} rows'))
    cs.append(Case('shapes_2x2_TTF', h_img((True, True, False), False, 0, 1, 2, 2), bind=BIND, kernels=KER, maxcases=32,
                   budget_s=170, timeout_ms=60000, descr='many-to-many, two periodic directions'))
    for pbc in ((True, True, True), (True, False, True), (False, True, False)) if tier == 'quick' else PBCS:
        if sum(pbc) == 3: continue          # decided through h_radius_lemma + img_TTT_* (see DESIGN.md C02)
        if sum(pbc) == 0: continue          # no periodic direction: there is no image to compare with (an empty case would be vacuous)
        npar = 1
        for part in range(npar):
            cs.append(Case(f'nearest_{pstr(pbc)}_{part}', h_nearest(pbc, part, npar), bind=BIND, kernels=KER, maxcases=32, budget_s=170, timeout_ms=30000,
                           descr='orthogonal cell, points inside: no image with a shift of +-2 is shorter'))
    for pbc in ((True, True, False), (False, True, True)) if tier == 'quick' else PBCS:
        cs.append(Case(f'system_{pstr(pbc)}', h_system(pbc), bind=BIND, kernels=KER, maxcases=32, budget_s=170, timeout_ms=30000,
                       descr='System.dvect/dmag index-or-position dispatch; displacement() atom by atom'))
    cs.append(Case('radius_lemma', h_radius_lemma(), budget_s=170, timeout_ms=30000,
                   descr='finite search radius for orthogonal cells with both points inside (pure arithmetic lemma, 98 shifts + all radii per axis)'))
    for v in ('orthogonal', 'tilted'):
        cs.append(Case(f'displacement_boxes_{v}', h_displacement_boxes(v), bind=BIND, kernels=KER, maxcases=32, budget_s=120, timeout_ms=30000,
                       descr=f'displacement uses the chosen reference system\'s box and pbc ({v} cells, systems differ in both)'))
    # general (not LAMMPS-oriented) 3x3 cells: the scalar distance against the vector one, and the candidates of a single periodic direction
    for pbc in ((True, False, False), (False, True, True)) if tier == 'quick' else [p_ for p_ in PBCS if sum(p_) in (1, 2)]:
        cs.append(Case(f'dmagG_{pstr(pbc)}', h_img(pbc, True, 0, 1, 1, 1, with_dmag=True), bind=BIND, kernels=KER, maxcases=32,
                       budget_s=170, timeout_ms=30000 if tier == 'quick' else 120000, descr=f'general 3x3 cell, pbc {pstr(pbc)}: dmag^2 == |dvect|^2'))
    cs.append(Case('imgG_quick_FTF', h_img((False, True, False), True, 0, 1, 1, 1), bind=BIND, kernels=KER, maxcases=32, budget_s=170, timeout_ms=60000,
                   descr='general 3x3 cell, one periodic direction: the three candidates'))
    if tier == 'thorough':
        for pbc in PBCS:
            npb = sum(pbc); nparts = {3: 27, 2: 9, 1: 1, 0: 1}[npb]
            for part in range(nparts):
                cs.append(Case(f'imgG_{pstr(pbc)}_{part}', h_img(pbc, True, part, nparts, 1, 1), bind=BIND, kernels=KER, maxcases=32,
                               budget_s=600, timeout_ms=120000, descr=f'general 3x3 cell, pbc {pstr(pbc)}, candidates {part}/{nparts}'))
    return cs
