# C06 Per-atom data stays rectangular, row-aligned, unaliased under any edit sequence
import itertools, math, copy
import numpy as np
from vlib.run import Case
from symx import core as sx
from symx.core import var, assume, eq, le, sa, band, bor, alleq

META = dict(
    explanation='Atoms / System editing operations are executed on per-atom properties whose VALUES are symbolic (atom types as symbolic integers >= 1, so that per-type masks, the atype >= 1 guard, natypes and the symbols/masses padding become solver decisions); every sequence of operations up to the bound from four pre-state shapes is run against an independent record-per-atom model. Aliasing is executed for real (NumPy object arrays keep view/copy semantics).',
    functions=['atomman/core/Atoms.py:Atoms.__init__,PropertyDict.__setitem__,__setattr__,__getitem__,__setitem__,__deepcopy__,prop,prop_atype,extend,natypes,atypes',
               'atomman/core/System.py:System.__init__,atoms_prop,atoms_extend,_AtomsIndexer,symbols,masses,natypes,pbc'],
    bounds=dict(quick='3 atoms (+ up to 2 added), properties atype (symbolic ints in [1,3]), pos, a float (N,2) property, an int scalar property; 30 operations (every int index in [-3,2] for extraction); all sequences of length 1 from 4 pre-states and ALL ordered pairs (900) from the fresh state',
                thorough='all ordered pairs from every pre-state, and triples by a stride'),
    outside=['histories longer than 3', 'string-valued properties', 'direct mutation of the arrays exposed by .view / attribute access (documented as views)'],
    lemmas=[], cuts=[], assumptions=['atom types in [1,3]'], trusted=['the 10-line reference semantics per operation in this module'],
)
BIND = ['atomman.core.Atoms', 'atomman.core.System', 'atomman.core.Box']
N0 = 3


class Model:
    """independent record-per-atom model: list of dicts"""
    def __init__(self, rows): self.rows = rows
    def copy(self): return Model([dict((k, (list(v) if isinstance(v, list) else v)) for k, v in r.items()) for r in self.rows])
    @property
    def n(self): return len(self.rows)
    def keys(self): return list(self.rows[0].keys()) if self.rows else []


def fresh_values(tag=''):
    at = [var(f'{tag}t{k}', 1, 3, integer=True) for k in range(N0)]
    pos = [[var(f'{tag}p{k}{i}', -10, 10) for i in range(3)] for k in range(N0)]
    f = [[var(f'{tag}f{k}{i}', -10, 10) for i in range(2)] for k in range(N0)]
    q = [5 + k for k in range(N0)]
    return at, pos, f, q


def prestate(kind):
    """(Atoms, Model, extra objects to watch)"""
    from atomman import Atoms
    at, pos, f, q = fresh_values()
    rows = [dict(atype=at[k], pos=list(pos[k]), f=list(f[k]), q=q[k]) for k in range(N0)]
    if kind == 'fresh':
        a = Atoms(atype=sa(at) if sx.symbolic_mode() else np.array(at), pos=sa(pos), f=sa(f), q=np.array(q), safecopy=True)
    elif kind == 'user_arrays':
        a = Atoms(atype=np.array(at, dtype=object) if sx.symbolic_mode() else np.array(at), pos=sa(pos), f=sa(f), q=np.array(q))
    elif kind == 'slice_of_parent':
        at2, pos2, f2, q2 = fresh_values('x')
        parent = Atoms(atype=sa(at + at2[:1]) if sx.symbolic_mode() else np.array(at + at2[:1]), pos=sa(pos + pos2[:1]), f=sa(f + f2[:1]), q=np.array(q + [9]))
        a = parent[0:3]
    elif kind == 'extended':
        base = Atoms(atype=sa(at[:2]) if sx.symbolic_mode() else np.array(at[:2]), pos=sa(pos[:2]), f=sa(f[:2]), q=np.array(q[:2]))
        a = base.extend(Atoms(atype=sa(at[2:]) if sx.symbolic_mode() else np.array(at[2:]), pos=sa(pos[2:]), f=sa(f[2:]), q=np.array(q[2:])))
    return a, Model(rows)


def val(tag, shape=()):
    if shape == (): return var(tag, -10, 10)
    return [var(f'{tag}{i}', -10, 10) for i in range(shape[0])]


def norm_index(idx, n):
    """the rows selected by an index of the operation alphabet"""
    if isinstance(idx, (int, np.integer)): return [idx % n]
    if isinstance(idx, slice): return list(range(n))[idx]
    if isinstance(idx, list) and idx and isinstance(idx[0], (bool, np.bool_)): return [i for i, b in enumerate(idx) if b]
    return [i % n for i in idx]


# ---- operations: (name, fn(atoms, model, uid) -> (atoms, model))
def op_view_full(a, m, u):
    new = [val(f'{u}v{k}', (2,)) for k in range(m.n)]
    a.view['f'] = sa(new)
    for k in range(m.n): m.rows[k]['f'] = list(new[k])
    return a, m
def op_attr_scalar(a, m, u):
    v = val(f'{u}s')
    a.q2 = v                                    # new property through attribute assignment, scalar broadcast
    for r in m.rows: r['q2'] = v
    return a, m
def op_attr_len1(a, m, u):
    v = val(f'{u}l', (2,))
    a.f = sa([v])                               # length-1 broadcast over an existing property
    for r in m.rows: r['f'] = list(v)
    return a, m
def mk_prop_set(idx, name):
    def op(a, m, u):
        ix = ([True, False, True] + [False] * (m.n - 3)) if idx == 'mask' else idx
        rows = norm_index(ix, m.n)
        v = val(f'{u}i', (2,))
        a.prop('f', index=ix, value=sa(v))
        for k in rows: m.rows[k]['f'] = list(v)
        return a, m
    op.__name__ = f'prop_set_f[{name}]'
    return op
def op_prop_set_pos_slice(a, m, u):
    v = [val(f'{u}a', (3,)), val(f'{u}b', (3,))]
    a.prop('pos', index=slice(1, 3), value=sa(v))
    m.rows[1]['pos'] = list(v[0]); m.rows[2]['pos'] = list(v[1])
    return a, m
def op_prop_atype_all(a, m, u):
    per = [val(f'{u}ty{t}') for t in range(3)]
    a.prop_atype('g', sa(per))
    for r in m.rows: r['g'] = _select(r['atype'], per)
    return a, m
def mk_prop_atype_one(t):
    def op(a, m, u):
        v = val(f'{u}w')
        nat = a.natypes
        try:
            a.prop_atype('h', v, atype=t)
        except ValueError:
            if t <= nat: raise
            return a, m          # documented refusal: atype not found
        for r in m.rows:
            old = r.get('h', 0.0)
            r['h'] = sx.ite(r['atype'] == t, v, old) if sx.is_sym(r['atype']) else (v if r['atype'] == t else old)
        return a, m
    op.__name__ = f'prop_atype_one[{t}]'
    return op
def _select(t, per):
    if not sx.is_sym(t): return per[int(t) - 1]
    out = per[-1]
    for k in range(len(per) - 2, -1, -1): out = sx.ite(t == k + 1, per[k], out)
    return out
def op_extend_count(a, m, u):
    b = a.extend(2)
    mb = m.copy()
    for _ in range(2):
        mb.rows.append({k: (1 if k == 'atype' else ([0.0] * len(v) if isinstance(v, list) else 0)) for k, v in m.rows[0].items()})
    return b, mb, ('operand', a, m)
def op_extend_atoms(a, m, u):
    from atomman import Atoms
    t = var(f'{u}nt', 1, 3, integer=True); p = val(f'{u}np', (3,)); z = val(f'{u}nz')
    other = Atoms(atype=sa([t]) if sx.symbolic_mode() else np.array([t]), pos=sa([p]), z=sa([z]))      # differing property set: has z, lacks f/q
    b = a.extend(other)
    mb = m.copy()
    for r in mb.rows: r.setdefault('z', 0.0)       # existing atoms get zeros only for properties they did not have
    new = {k: ([0.0] * len(v) if isinstance(v, list) else 0) for k, v in m.rows[0].items()}
    new.update(atype=t, pos=list(p), z=z)
    mb.rows.append(new)
    return b, mb, ('operand', a, m)
def mk_getitem(idx, name):
    def op(a, m, u):
        b = a[idx]
        rows = norm_index(idx, m.n)
        return b, Model([dict((k, (list(v) if isinstance(v, list) else v)) for k, v in m.rows[k_].items()) for k_ in rows]), ('operand', a, m)
    op.__name__ = f'getitem[{name}]'
    return op
def mk_setitem(idx, name):
    def op(a, m, u):
        from atomman import Atoms
        rows = norm_index(idx, m.n)
        kw = {}
        newrows = []
        for j, k in enumerate(rows):
            r = {}
            for key, v in m.rows[k].items():
                if key == 'atype': r[key] = var(f'{u}st{j}', 1, 3, integer=True)
                elif isinstance(v, list): r[key] = val(f'{u}s{key}{j}', (len(v),))
                elif key == 'q': r[key] = 40 + j                  # integer-typed property: concrete integers
                else: r[key] = val(f'{u}s{key}{j}')
            newrows.append(r)
        for key in list(m.keys())[::-1]:           # the assigned Atoms creates its properties in the opposite order
            col = [r[key] for r in newrows]
            kw[key] = np.array(col) if (key == 'q' or (key == 'atype' and not sx.symbolic_mode())) else sa(col)
        src = Atoms(**kw)
        a[idx] = src
        for j, k in enumerate(rows): m.rows[k] = {key: (list(v) if isinstance(v, list) else v) for key, v in newrows[j].items()}
        return a, m
    op.__name__ = f'setitem[{name}]'
    return op
def mk_prop_get_index(idx):
    def op(a, m, u):
        b = a.prop(index=idx)               # copying accessor returning an Atoms for that index
        rows = norm_index(idx, m.n)
        mb = Model([dict((k, (list(v) if isinstance(v, list) else v)) for k, v in m.rows[k_].items()) for k_ in rows])
        b.pos[0, 0] = 4242.0                # mutate the copy afterwards: storage must not change (checked through the operand watch)
        if mb.rows: mb.rows[0]['pos'][0] = 4242.0
        return b, mb, ('operand', a, m)
    op.__name__ = f'prop_get_index[{idx}]'
    return op
def op_deepcopy(a, m, u):
    b = copy.deepcopy(a)
    return b, m.copy(), ('operand', a, m)
def op_prop_get_mutate(a, m, u):
    """copying accessor: the returned array is not storage"""
    got = a.prop('pos')
    shared = np.shares_memory(got, a.view['pos'])
    got[0, 0] = 12345.0
    sub = a.prop('f', index=[0, 2]); sub[0, 0] = 54321.0
    one = a.prop(index=1); one.pos[0, 0] = 999.0
    # index forms that are views for NumPy itself: a slice, a strided slice, a single row, a negative row
    sl = a.prop('pos', index=slice(0, 2)); sl[0, 1] = 777.0
    st = a.prop('f', index=slice(None, None, 2)); st[0, 0] = 666.0
    row = a.prop('pos', index=1); row[2] = 555.0
    neg = a.prop('f', index=-1); neg[0] = 444.0
    return a, m, ('flag', 'prop() result shares no memory with storage', not shared)


OPS = [op_view_full, op_attr_scalar, op_attr_len1, mk_prop_set(0, '0'), mk_prop_set(-1, '-1'), mk_prop_set(-2, '-2'), mk_prop_set(slice(0, 2), '0:2'),
       mk_prop_set([2, 0], '[2,0]'), mk_prop_set('mask', 'mask'), op_prop_set_pos_slice, op_prop_atype_all, mk_prop_atype_one(1), mk_prop_atype_one(3),
       op_extend_count, op_extend_atoms, mk_getitem(1, '1'), mk_getitem(-1, '-1'), mk_getitem(-2, '-2'), mk_getitem(-3, '-3'), mk_getitem(0, '0'), mk_setitem(-2, '-2'), mk_setitem(-1, '-1'), mk_prop_get_index(-2), mk_prop_get_index(1), mk_getitem(slice(None, None, 2), '::2'), mk_getitem([2, 2, 0], '[2,2,0]'),
       mk_setitem(1, '1'), mk_setitem(slice(0, 2), '0:2'), op_deepcopy, op_prop_get_mutate]
def _guard(op):
    """operations are written for at least 3 atoms; on smaller sub-systems they are skipped (not part of the sequence)"""
    def g(a, m, u):
        if m.n < 3: return a, m
        return op(a, m, u)
    g.__name__ = op.__name__
    return g
OPS = [_guard(o) for o in OPS]
for _o in OPS:
    if not _o.__name__.startswith(('prop_set', 'prop_get_index', 'getitem', 'setitem', 'prop_atype_one')): _o.__name__ = _o.__name__[3:]


def compare(a, m, tag):
    ob = []
    keys = m.keys()
    ob.append((f'{tag}: property set', sorted(a.prop()) == sorted(keys)))
    ob.append((f'{tag}: natoms', a.natoms == m.n))
    if sorted(a.prop()) != sorted(keys) or a.natoms != m.n: return ob
    for key in keys:
        arr = a.view[key]
        ob.append((f'{tag}: {key} has one entry per atom', np.shape(arr)[0] == m.n))
        if np.shape(arr)[0] != m.n: continue
        ok = True
        for k in range(m.n):
            want = m.rows[k][key]
            if isinstance(want, list):
                if np.shape(arr[k]) != (len(want),): ok = False; break
                ok = band(ok, *[eq(arr[k][i], want[i]) for i in range(len(want))])
            else:
                if np.shape(arr[k]) != (): ok = False; break
                ok = band(ok, eq(arr[k], want))
        ob.append((f'{tag}: values of {key} row-aligned with the record model', ok))
    ob.append((f'{tag}: atom types >= 1', band(*[le(1, t) for t in np.asarray(a.view['atype'], dtype=object).flat])))
    return ob


def h_seq(kind, ops):
    def fn():
        a, m = prestate(kind)
        ob = compare(a, m, 'pre-state')
        watch = []
        for n, op in enumerate(ops):
            r = op(a, m, f'o{n}')
            a, m = r[0], r[1]
            if len(r) > 2:
                if r[2][0] == 'operand': watch.append((f'operand of step {n} ({op.__name__})', r[2][1], r[2][2].copy()))
                else: ob.append((r[2][1], r[2][2]))
            ob += compare(a, m, f'after {"; ".join(o.__name__ for o in ops[:n + 1])}')
        for tag, obj, mm in watch:
            ob += [(f'{t} [unchanged {tag}]', v) for t, v in compare(obj, mm, 'operand')]
        return ob
    return fn


def h_system(variant):
    """System level: symbols/masses never shorter than natypes (symbolic types), atoms_prop copies, atoms_ix, atoms_extend"""
    def fn():
        import atomman as am
        at, pos, f, q = fresh_values()
        atoms = am.Atoms(atype=sa(at) if sx.symbolic_mode() else np.array(at), pos=sa(pos), f=sa(f), q=np.array(q))
        rows = [dict(atype=at[k], pos=list(pos[k]), f=list(f[k]), q=q[k]) for k in range(N0)]
        box = am.Box(lx=4.0, ly=5.0, lz=6.0, xy=1.0, origin=[0.5, -1.0, 2.0])
        ob = []
        mx = at[0]
        for t in at[1:]: mx = sx.ite(t > mx, t, mx) if sx.is_sym(t) or sx.is_sym(mx) else max(t, mx)
        if variant == 'symbols':
            s = am.System(atoms=atoms, box=box, symbols=['Al'])
            nt = s.natypes
            ob.append(('natypes == max atype (symbols shorter)', eq(nt, mx)))
            ob.append(('len(symbols) >= natypes', len(s.symbols) >= nt)); ob.append(('len(masses) >= natypes', len(s.masses) >= nt))
            ob.append(('given symbols kept, padding is None', s.symbols[0] == 'Al' and all(x is None for x in s.symbols[1:])))
            s.symbols = ['Al', 'Cu', 'Ni', 'Fe']
            ob.append(('natypes grows with the symbols list', s.natypes == 4))
            ob.append(('masses read after the symbols list grew: never shorter than natypes', len(s.masses) >= s.natypes))
            sub = s.atoms_ix[[0, 1]]; sub.symbols = ['Al', 'Cu', 'Ni', 'Fe', 'Co']
            ob.append(('same on a sub-system from atoms_ix', len(sub.masses) >= sub.natypes and sub.natypes == 5))
            s.masses = [1.0, 2.0, 3.0, 4.0]
            ob.append(('one mass per declared type is accepted although the last types have no atoms, and read back', tuple(s.masses) == (1.0, 2.0, 3.0, 4.0)))
            s.masses = [1.0, 2.0]
            ob.append(('masses padded to natypes', len(s.masses) >= s.natypes and s.masses[:2] == (1.0, 2.0)))
            try:
                s.masses = [1.0] * 5; ob.append(('more masses than types refused', False))
            except ValueError:
                ob.append(('more masses than types refused', True))
            s.pbc = [True, False, True]
            ob.append(('pbc setter', tuple(bool(x) for x in s.pbc) == (True, False, True)))
        elif variant == 'atoms_prop':
            s = am.System(atoms=atoms, box=box)
            got = s.atoms_prop('pos'); shared = np.shares_memory(got, s.atoms.view['pos']); got[0, 0] = 777.0
            sp = s.atoms_prop('pos', scale=True); sp[1, 1] = 888.0
            ob.append(('atoms_prop() results do not alias storage', not shared))
            ob += compare(s.atoms, Model(rows), 'after mutating arrays returned by atoms_prop')
            # scaled set/get round trip
            spv = [val(f'sp{k}', (3,)) for k in range(N0)]
            s.atoms_prop('pos', value=sa(spv), scale=True)
            V = np.array(box.vects, float); O = np.array(box.origin, float)
            m2 = Model([dict(r) for r in rows])
            for k in range(N0): m2.rows[k]['pos'] = [O[j] + sum(spv[k][i] * float(V[i, j]) for i in range(3)) for j in range(3)]
            ob += compare(s.atoms, m2, 'after atoms_prop(pos, value, scale=True)')
            back = s.atoms_prop('pos', scale=True)
            ob.append(('scaled get returns what was set', band(*[sx.close(back[k, i], spv[k][i], 1e-9, 10.0) for k in range(N0) for i in range(3)])))
        elif variant == 'atoms_ix':
            s = am.System(atoms=atoms, box=box, symbols=['Al', 'Cu', 'Ni'])
            sub = s.atoms_ix[[2, 0]]
            ob += compare(sub.atoms, Model([dict(rows[2]), dict(rows[0])]), 'atoms_ix[[2,0]]')
            ob.append(('atoms_ix result keeps box, pbc, symbols', band(np.allclose(np.asarray(sub.box.vects, float), np.asarray(box.vects, float)), tuple(sub.symbols) == ('Al', 'Cu', 'Ni'))))
            newt = var('nt', 1, 3, integer=True); newp = val('np', (3,)); newf = val('nf', (2,))
            s.atoms_ix[1] = am.Atoms(atype=sa([newt]) if sx.symbolic_mode() else np.array([newt]), pos=sa([newp]), f=sa([newf]), q=np.array([42]))
            m2 = Model([dict(r) for r in rows]); m2.rows[1] = dict(atype=newt, pos=list(newp), f=list(newf), q=42)
            ob += compare(s.atoms, m2, 'after atoms_ix[1] = Atoms')
        elif variant.startswith('atoms_extend'):
            s = am.System(atoms=atoms, box=box, symbols=['Al', 'Cu', 'Ni'])
            newt = var('nt', 1, 3, integer=True); newp = val('np', (3,))
            scale = variant.endswith('scaled')
            other = am.Atoms(atype=sa([newt]) if sx.symbolic_mode() else np.array([newt]), pos=sa([newp]), f=sa([[0.5, 0.25]]), q=np.array([1]))
            s2 = s.atoms_extend(other, scale=scale)
            V = np.array(box.vects, float); O = np.array(box.origin, float)
            cart = [O[j] + sum(newp[i] * float(V[i, j]) for i in range(3)) for j in range(3)] if scale else list(newp)
            m2 = Model([dict(r) for r in rows] + [dict(atype=newt, pos=cart, f=[0.5, 0.25], q=1)])
            ob += compare(s2.atoms, m2, f'atoms_extend(Atoms, scale={scale})')
            ob += [(t + ' [operand unchanged]', v) for t, v in compare(s.atoms, Model(rows), 'host of atoms_extend')]
            # the Atoms that were added are an operand too: unchanged (also for safecopy=False), so that adding them again gives the same result
            ob += [(t + ' [added Atoms unchanged]', v) for t, v in compare(other, Model([dict(atype=newt, pos=list(newp), f=[0.5, 0.25], q=1)]), 'value of atoms_extend')]
            s2b = s.atoms_extend(other, scale=scale, safecopy=False)
            ob += [(t + ' [added Atoms unchanged, safecopy=False]', v) for t, v in compare(other, Model([dict(atype=newt, pos=list(newp), f=[0.5, 0.25], q=1)]), 'value of atoms_extend')]
            ob += compare(s2b.atoms, m2, f'second atoms_extend(Atoms, scale={scale}, safecopy=False) with the same Atoms')
            s3 = s.atoms_extend(2)
            ob.append(('atoms_extend(2) adds two atoms of type 1 at the origin', band(s3.natoms == 5, eq(s3.atoms.atype[3], 1), eq(s3.atoms.atype[4], 1), *[eq(s3.atoms.pos[4, i], 0) for i in range(3)])))
        return ob
    return fn


def cases(tier, seed=0):
    cs = []
    kinds = ['fresh', 'user_arrays', 'slice_of_parent', 'extended']
    for kind in kinds:
        for i, op in enumerate(OPS):
            cs.append(Case(f'one_{kind}_{op.__name__}', h_seq(kind, [op]), bind=BIND, budget_s=100, timeout_ms=10000, max_paths=300,
                           descr=f'pre-state {kind}; operation {op.__name__}'))
    pairs = list(itertools.product(range(len(OPS)), repeat=2))
    stride = 1          # every ordered pair of operations, in both tiers (a seeded subset was used earlier; the full set costs ~35 s)
    for n, (i, j) in enumerate(pairs):
        if (n + seed) % stride: continue
        for kind in (['fresh'] if tier == 'quick' else kinds):
            cs.append(Case(f'two_{kind}_{OPS[i].__name__}_{OPS[j].__name__}', h_seq(kind, [OPS[i], OPS[j]]), bind=BIND, budget_s=100, timeout_ms=10000, max_paths=300,
                           descr=f'pre-state {kind}; {OPS[i].__name__} then {OPS[j].__name__}'))
    if tier == 'thorough':
        trip = list(itertools.product(range(len(OPS)), repeat=3))
        for n, (i, j, k) in enumerate(trip):
            if (n + seed) % 97: continue
            cs.append(Case(f'three_fresh_{OPS[i].__name__}_{OPS[j].__name__}_{OPS[k].__name__}', h_seq('fresh', [OPS[i], OPS[j], OPS[k]]), bind=BIND, budget_s=200,
                           timeout_ms=10000, max_paths=600, descr='triple'))
    for v in ('symbols', 'atoms_prop', 'atoms_ix', 'atoms_extend', 'atoms_extend_scaled'):
        cs.append(Case(f'system_{v}', h_system(v), bind=BIND, budget_s=120, timeout_ms=10000, max_paths=300, descr=f'System level: {v}'))
    return cs
