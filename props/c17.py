# C17 Analysis tools recover a known imposed deformation exactly
import itertools, math
import numpy as np
from vlib.run import Case
from symx import core as sx, kernels
from symx.core import var, assume, eq, le, sa, band, bor, alleq, close

META = dict(
    explanation='Strain.pyx (re-translated: set_p_vectors, solve_G with match_pq and the least-squares solve, strain/rotation/invariants, solve_nye) is executed on a simple-cubic cluster with a SYMBOLIC deformation gradient (nine entries) and translation: G == F^-T entry by entry; strain, rotation, invariants and angular velocity are decided for an ARBITRARY injected G; the Nye tensor is decided for an arbitrary injected LINEAR G field (exact gradient; zero for uniform G). displacement(), slip_vector.pyx (re-translated), disregistry() and DifferentialDisplacement.solve are executed on a concrete reference crystal (bcc 2x4x2, 32 atoms; concrete neighbour list) with a SYMBOLIC imposed deformation: an arbitrary bounded displacement of individual atoms (displacement through the periodic boundaries), a rigid slip vector of the upper half crystal (3 symbolic components), a common symbolic translation and a consistent renumbering.',
    functions=['atomman/defect/Strain.pyx:Strain.__init__,set_p_vectors,build_p_vectors,solve_G,match_pq,strain_c,rotation_c,invariant1_c,invariant2_c,invariant3_c,angularvelocity_c,solve_nye,dG_c,nye_c', 'atomman/core/displacement.py:displacement', 'atomman/core/dvect.pyx:dvect_c', 'atomman/defect/slip_vector.pyx:slip_vector,slip_vector_c', 'atomman/defect/disregistry.py:disregistry', 'atomman/defect/DifferentialDisplacement.py:solve',
               'atomman/core/System.py:dvect'],
    bounds=dict(quick='Strain: 8-atom simple-cubic cluster (3 neighbours each) in a non-periodic cell, F = 1 + E with nine symbolic |E_ij| <= 0.03, translation |t_k| <= 0.5, theta_max 27; injected G: 2 atoms x 9 symbolic entries in [-2,2]; injected linear field: G0 in [-2,2]^9, gradient in [-1,1]^27 on the sc and bcc (9-atom, two-shell) clusters. bcc a=2.87 supercell 2x4x2 (32 atoms), first-shell cutoff; displacement of 3 chosen atoms (one next to a periodic face) with |u_k| <= 0.2 a; rigid slip |s_k| <= 0.2 a of the half crystal above a plane between layers, periodicity (T,F,T); symbolic common translation |t_k| <= 0.5 a (atoms may leave the cell); one cyclic renumbering; slip vector also with free surfaces cutting the slip plane (pbc FFT, TFF, FFF); displacement() for two concrete homogeneous deformations (stretches and shears up to 3%) of a 16-atom cell with symbolic translation, symbolic extra displacement of two atoms, atoms stored as periodic images, both box_reference choices; DifferentialDisplacement with reference 0 and 1',
                thorough='same plus pbc TTT (two slip planes)'),
    outside=['Strain on rotated crystals (axes=), reference-system p vectors and two-shell p lists with a SYMBOLIC deformation gradient (the angular comparisons of match_pq are not decided by intervals there and each costs a nonlinear query: > 400 s per case) - concrete samples only (strain_samples)',
             'a SYMBOLIC deformation gradient in displacement() (symbolic cell in the minimum-image kernel: 16/16 queries unknown after 380 s; the deformation is enumerated concretely instead)', 'other reference crystals and sizes (concrete reference: the verdict is per reference crystal, for all deformation amplitudes in the bound)', 'IEEE-754 rounding'],
    lemmas=[], cuts=['Strain: the lattice correspondence tensor is injected (private attribute) for the strain-formula and Nye-tensor cases; np.linalg.lstsq on symbolic operands is executed as the normal equations with an adjugate inverse (full-rank neighbourhoods only)', 'np.interp in disregistry replaced by its piecewise-linear definition for concrete abscissae and symbolic ordinates'],
    assumptions=['displacements below a quarter of the smallest cell width so that no periodic image switches'], trusted=['pyx2py translator (validated in C02/C03)'],
)
BIND = ['atomman.core.Box', 'atomman.core.System', 'atomman.core.Atoms', 'atomman.core.displacement', 'atomman.defect.disregistry', 'atomman.defect.DifferentialDisplacement', 'atomman.core.NeighborList']
KER = ['dvect', 'slip_vector', 'nlist', 'dmag']
A = 2.87


def reference(pbc):
    import atomman as am
    cell = am.System(atoms=am.Atoms(pos=np.array([[0, 0, 0], [0.5, 0.5, 0.5]]), atype=[1, 1]), box=am.Box.cubic(A), scale=True, symbols=['Fe'])
    s = cell.supersize(2, 4, 2)
    s.pbc = pbc
    return s


def h_displacement(pbc):
    def fn():
        import atomman as am
        s0 = reference(pbc)
        pos0 = np.array(s0.atoms.pos, dtype=float)
        n = s0.natoms
        # atoms whose displacement is symbolic: one in the interior, one on the lower face, one near the upper periodic face
        order = np.argsort(pos0[:, 0] + 10 * pos0[:, 1] + 100 * pos0[:, 2])
        chosen = [int(order[0]), int(order[n // 2]), int(order[-1])]
        U = np.zeros((n, 3), dtype=object)
        for c in chosen:
            for j in range(3): U[c, j] = var(f'u{c}_{j}', -0.2 * A, 0.2 * A)
        pos1 = pos0.astype(object) + U
        s1 = am.System(atoms=am.Atoms(pos=sa(pos1)), box=s0.box, pbc=pbc)
        ob = []
        for refbox in ('final', 'initial'):
            d = am.displacement(s0, s1, box_reference=refbox)
            ob.append((f'displacement shape ({refbox})', np.shape(d) == (n, 3)))
            for c in chosen:
                ob.append((f'displacement of atom {c} == imposed displacement ({refbox})', band(*[close(d[c, j], U[c, j], 1e-9, 10.0) for j in range(3)])))
            ob.append((f'undisplaced atoms have zero displacement ({refbox})', band(*[close(d[k, j], 0, 1e-9, 10.0) for k in range(n) if k not in chosen for j in range(3)])))
        # the second system wrapped back into the cell: still the imposed displacement through the boundary
        s1w = am.System(atoms=am.Atoms(pos=sa(pos1)), box=s0.box, pbc=pbc); s1w.wrap()
        d = am.displacement(s0, s1w)
        for c in chosen:
            ob.append((f'after wrapping the displaced system: displacement of atom {c} still the imposed one', band(*[close(d[c, j], U[c, j], 1e-9, 10.0) for j in range(3)])))
        return ob
    return fn


def h_displacement_deformed(refbox, strain):
    """homogeneous deformation + translation; some atoms of the deformed system stored as periodic images (moved by
    integer cell vectors of the box named by box_reference)"""
    def fn():
        import atomman as am
        cell = am.System(atoms=am.Atoms(pos=np.array([[0, 0, 0], [0.5, 0.5, 0.5]]), atype=[1, 1]), box=am.Box.cubic(A), scale=True, symbols=['Fe'])
        s0 = cell.supersize(2, 2, 2)
        pos0 = np.array(s0.atoms.pos, dtype=float)
        n = s0.natoms
        L = 2 * A
        e, g = strain[:3], strain[3:]                                           # stretches; shears xy, xz, yz (concrete: a symbolic cell makes every
        t = [var(f't{k}', -0.1, 0.1) for k in range(3)]                        #  minimum-image query nonlinear - measured 16/16 unknown after 380 s)
        extra = {1: [var(f'w1_{j}', -0.15, 0.15) for j in range(3)], n - 2: [var(f'w2_{j}', -0.15, 0.15) for j in range(3)]}
        # deformed cell in LAMMPS form: a=(lx,0,0) b=(xy,ly,0) c=(xz,yz,lz); F maps the old cell vectors onto the new ones
        lx, ly, lz = L * (1 + e[0]), L * (1 + e[1]), L * (1 + e[2])
        xy, xz, yz = L * g[0], L * g[1], L * g[2]
        box1 = am.Box(lx=lx, ly=ly, lz=lz, xy=xy, xz=xz, yz=yz)
        V1 = [[lx, 0, 0], [xy, ly, 0], [xz, yz, lz]]
        V0 = [[L, 0, 0], [0, L, 0], [0, 0, L]]
        Vw = V1 if refbox == 'final' else V0
        U = np.empty((n, 3), dtype=object); P1 = np.empty((n, 3), dtype=object)
        for i in range(n):
            r = pos0[i] / L                                                       # relative coordinates are kept by a homogeneous deformation
            new = [sum(float(r[k]) * V1[k][j] for k in range(3)) + t[j] + (extra[i][j] if i in extra else 0.0) for j in range(3)]
            for j in range(3): U[i, j] = new[j] - float(pos0[i, j])
            img = [(i % 3) - 1, ((i // 3) % 3) - 1, ((i // 2) % 2)]              # stored as a periodic image
            for j in range(3): P1[i, j] = new[j] + sum(img[k] * Vw[k][j] for k in range(3))
        s1 = am.System(atoms=am.Atoms(pos=sa(P1)), box=box1, pbc=(True, True, True))
        d = am.displacement(s0, s1, box_reference=refbox)
        ob = [('displacement shape', np.shape(d) == (n, 3))]
        for i in range(n):
            ob.append((f'atom {i}: displacement == imposed homogeneous deformation + translation, through the periodic boundaries of the {refbox} box', band(*[close(d[i, j], U[i, j], 1e-9, 10.0) for j in range(3)])))
        return ob
    return fn


def half_crystal(pbc=(True, False, True)):
    s0 = reference(pbc)
    pos0 = np.array(s0.atoms.pos, dtype=float)
    ys = np.unique(np.round(pos0[:, 1], 8))
    yplane = (ys[len(ys) // 2 - 1] + ys[len(ys) // 2]) / 2          # between two atomic layers
    upper = pos0[:, 1] > yplane
    return s0, pos0, upper, yplane, pbc


def h_slip(translate, permute, pbc=(True, False, True), wrap=False):
    def fn():
        import atomman as am
        s0, pos0, upper, yplane, _ = half_crystal(pbc)
        n = s0.natoms
        S = [var(f's{j}', -0.2 * A, 0.2 * A) for j in range(3)] if not wrap else [var('s0', -0.2 * A, -0.02 * A), var('s1', -0.2 * A, 0.2 * A), var('s2', -0.2 * A, -0.02 * A)]
        T = [var(f't{j}', -0.5 * A, 0.5 * A) for j in range(3)] if translate else [0.0, 0.0, 0.0]
        perm = list(range(n))
        if permute: perm = perm[5:] + perm[:5]
        p0 = np.empty((n, 3), dtype=object); p1 = np.empty((n, 3), dtype=object)
        for new, old in enumerate(perm):
            for j in range(3):
                p0[new, j] = pos0[old, j] + T[j]
                p1[new, j] = pos0[old, j] + T[j] + (S[j] if upper[old] else 0.0)
        box = s0.box
        a0 = am.System(atoms=am.Atoms(pos=sa(p0)), box=box, pbc=pbc); a1 = am.System(atoms=am.Atoms(pos=sa(p1)), box=box, pbc=pbc)
        if wrap:
            # the slipped system as wrap() leaves it: the slip has negative x and z components here, so exactly the slipped atoms that sat
            # on the lower x / z faces left the cell and are stored one cell vector higher; the slip vector is taken through the boundary
            Vb = np.array(box.vects, dtype=float)
            for new, old in enumerate(perm):
                if upper[old]:
                    if abs(pos0[old, 2]) < 1e-9:
                        for j in range(3): p1[new, j] = p1[new, j] + float(Vb[2, j])
                    if abs(pos0[old, 0]) < 1e-9:
                        for j in range(3): p1[new, j] = p1[new, j] + float(Vb[0, j])
            a1 = am.System(atoms=am.Atoms(pos=sa(p1)), box=box, pbc=pbc)
        # neighbour list of the (concrete) reference crystal, renumbered consistently
        nl = am.NeighborList(system=am.System(atoms=am.Atoms(pos=pos0[perm]), box=box, pbc=pbc), cutoff=0.9 * A)
        slip = am.defect.slip_vector(a0, a1, neighbors=nl)
        ob = [('slip vector shape', np.shape(slip) == (n, 3))]
        up = upper[perm]
        for i in range(n):
            across = sum(1 for j in nl[i] if up[int(j)] != up[i])
            sign = 1.0 if up[i] else -1.0            # own half's displacement relative to the other half: +s above, -s below
            ob.append((f'atom {i}: slip vector == (own half - other half displacement) x {across} neighbours across the plane', band(*[close(slip[i, j], sign * across * S[j], 1e-9, 10.0) for j in range(3)])))
        return ob
    return fn


def h_disregistry():
    def fn():
        import atomman as am
        s0, pos0, upper, yplane, pbc = half_crystal()
        n = s0.natoms
        S = [var(f's{j}', -0.2 * A, 0.2 * A) for j in range(3)]
        p1 = pos0.astype(object)
        for i in range(n):
            if upper[i]:
                for j in range(3): p1[i, j] = pos0[i, j] + S[j]
        s1 = am.System(atoms=am.Atoms(pos=sa(p1)), box=s0.box, pbc=pbc)
        coord, dis = am.defect.disregistry(s0, s1, m=[1, 0, 0], n=[0, 1, 0], planepos=[0, yplane, 0])
        ob = [('disregistry: one vector per in-plane coordinate', np.shape(dis) == (len(coord), 3) and len(coord) >= 2)]
        ob.append(('disregistry across the slip plane == the imposed slip at every coordinate', band(*[close(dis[i, j], S[j], 1e-9, 10.0) for i in range(len(coord)) for j in range(3)])))
        return ob
    return fn


def h_disregistry_z():
    """slip plane normal along z (n = [0,0,1], planepos given by its z component): the plane position is planepos . n"""
    def fn():
        import atomman as am
        pbc = (True, True, False)
        s0 = reference(pbc)
        pos0 = np.array(s0.atoms.pos, dtype=float)
        zs = np.unique(np.round(pos0[:, 2], 8))
        zplane = (zs[len(zs) // 2 - 1] + zs[len(zs) // 2]) / 2
        upper = pos0[:, 2] > zplane
        n = s0.natoms
        S = [var(f's{j}', -0.2 * A, 0.2 * A) for j in range(3)]
        p1 = pos0.astype(object)
        for i in range(n):
            if upper[i]:
                for j in range(3): p1[i, j] = pos0[i, j] + S[j]
        s1 = am.System(atoms=am.Atoms(pos=sa(p1)), box=s0.box, pbc=pbc)
        coord, dis = am.defect.disregistry(s0, s1, m=[1, 0, 0], n=[0, 0, 1], planepos=[0.3, 0.9, zplane])
        ob = [('disregistry (plane normal z): one vector per in-plane coordinate', np.shape(dis) == (len(coord), 3) and len(coord) >= 2)]
        ob.append(('disregistry across a slip plane normal to z, located by planepos . n, == the imposed slip at every coordinate', band(*[close(dis[i, j], S[j], 1e-9, 10.0) for i in range(len(coord)) for j in range(3)])))
        return ob
    return fn


def h_dd(reference=0):
    def fn():
        import atomman as am
        s0, pos0, upper, yplane, pbc = half_crystal()
        n = s0.natoms
        chosen = [0, n // 2, n - 1]
        U = np.zeros((n, 3), dtype=object)
        for c in chosen:
            for j in range(3): U[c, j] = var(f'u{c}_{j}', -0.2 * A, 0.2 * A)
        s1 = am.System(atoms=am.Atoms(pos=sa(pos0.astype(object) + U)), box=s0.box, pbc=pbc)
        nl = am.NeighborList(system=s0, cutoff=0.9 * A)
        dd = am.defect.DifferentialDisplacement(s0, s1, neighbors=nl, reference=reference)
        vecs = dd.ddvectors
        pairs = [(i, int(j)) for i in range(n) for j in nl[i]]
        ob = [('one differential displacement per neighbour pair', np.shape(vecs) == (len(pairs), 3))]
        if np.shape(vecs) != (len(pairs), 3): return ob
        for k, (i, j) in enumerate(pairs):
            if i in chosen or j in chosen:
                ob.append((f'pair ({i},{j}): differential displacement == u_j - u_i', band(*[close(vecs[k, c], U[j, c] - U[i, c], 1e-9, 10.0) for c in range(3)])))
        ob.append(('pairs of undisplaced atoms: zero', band(*[close(vecs[k, c], 0, 1e-9, 10.0) for k, (i, j) in enumerate(pairs) if i not in chosen and j not in chosen for c in range(3)])))
        return ob
    return fn


# ------------------------------------------------------------------------------------------------ Strain / Nye tensor
def _cluster(kind):
    """small non-periodic clusters in which every atom has at least three non-coplanar neighbours
    sc : the 8 corners of a simple-cubic cell (3 neighbours each, exactly determined least squares)
    bcc: centre + 8 corners of a bcc cell with first and second shell (centre 8, corners 4 neighbours: over-determined)"""
    import atomman as am
    if kind == 'sc':
        pos = np.array([[i, j, k] for i in (0, 1) for j in (0, 1) for k in (0, 1)], dtype=float) * A
        cutoff = 1.1 * A
        pv = np.array([[1, 0, 0], [-1, 0, 0], [0, 1, 0], [0, -1, 0], [0, 0, 1], [0, 0, -1]], dtype=float) * A
    else:
        pos = np.array([[0, 0, 0]] + [[i, j, k] for i in (-.5, .5) for j in (-.5, .5) for k in (-.5, .5)], dtype=float) * A
        cutoff = 1.1 * A
        pv = np.array([[i, j, k] for i in (-.5, .5) for j in (-.5, .5) for k in (-.5, .5)] + [[1, 0, 0], [-1, 0, 0], [0, 1, 0], [0, -1, 0], [0, 0, 1], [0, 0, -1]], dtype=float) * A
    box = am.Box(vects=np.eye(3) * 10 * A, origin=[-5 * A] * 3)
    return pos, cutoff, pv, box


def _symF(bound=0.03):
    return np.array([[(1.0 if i == j else 0.0) + var(f'e{i}{j}', -bound, bound) for j in range(3)] for i in range(3)], dtype=object)


def h_strain_G(kind, how, bound=0.03):
    """homogeneous deformation gradient F (nine symbolic entries) imposed on a cluster: G == F^-T at every atom
    how = 'plist' : one list of p vectors for all atoms;  'axes' : the crystal is rotated in the system, the p vectors are given in
    crystal axes together with axes=;  'base' : p vectors built from the undeformed reference system"""
    def fn():
        import atomman as am
        pos, cutoff, pv, box = _cluster(kind)
        n = len(pos)
        pbc = (False, False, False)
        if how == 'axes':
            axes = np.array([[3, 4, 0], [-4, 3, 0], [0, 0, 5]], dtype=float)
            T = axes / np.linalg.norm(axes, axis=1)[:, None]
            pos = np.inner(pos, T)                       # the crystal as it sits in the system frame
        s0 = am.System(atoms=am.Atoms(pos=pos), box=box, pbc=pbc)
        nl = am.NeighborList(system=s0, cutoff=cutoff)
        F = _symF(bound)
        t = [var(f't{j}', -0.5, 0.5) for j in range(3)]
        pos1 = np.empty((n, 3), dtype=object)
        for i in range(n):
            for j in range(3): pos1[i, j] = sum(F[j, k] * float(pos[i, k]) for k in range(3)) + t[j]
        s1 = am.System(atoms=am.Atoms(pos=sa(pos1)), box=box, pbc=pbc)
        try:
            if how == 'plist': st = am.defect.Strain(s1, neighbors=nl, p_vectors=pv.tolist(), theta_max=27)
            elif how == 'axes': st = am.defect.Strain(s1, neighbors=nl, p_vectors=pv.tolist(), axes=axes, theta_max=27)
            else: st = am.defect.Strain(s1, neighbors=nl, basesystem=s0, baseneighbors=nl, theta_max=27)
            G = st.G
        except ValueError as e:
            return [(f'Strain accepts the documented p-vector input ({how}) and solves G [{type(e).__name__}: {e}]', False)]
        ob = [('G: one 3x3 tensor per atom', np.shape(G) == (n, 3, 3))]
        if np.shape(G) != (n, 3, 3): return ob
        for i in range(n):
            # G == F^-T  <=>  F^T G == 1
            for a in range(3):
                for b in range(3):
                    ob.append((f'atom {i}: lattice correspondence tensor G == inverse transpose of the imposed deformation gradient: (F^T G)[{a},{b}] == {int(a == b)}',
                               close(sum(F[k, a] * G[i, k, b] for k in range(3)), 1.0 if a == b else 0.0, 1e-9, 1.0)))
        return ob
    return fn


def h_strain_formulas():
    """strain, rotation, invariants and angular velocity as functions of an ARBITRARY lattice correspondence tensor (cut: G injected)"""
    def fn():
        import atomman as am
        pos, cutoff, pv, box = _cluster('sc')
        s0 = am.System(atoms=am.Atoms(pos=pos), box=box, pbc=(False, False, False))
        nl = am.NeighborList(system=s0, cutoff=cutoff)
        st = am.defect.Strain(s0, neighbors=nl, p_vectors=pv.tolist())
        n = len(pos)
        G = np.empty((n, 3, 3), dtype=object)
        for i in range(n):
            for a in range(3):
                for b in range(3):
                    G[i, a, b] = var(f'g{i}_{a}{b}', -2.0, 2.0) if i < 2 else float((1.0 if a == b else 0.0) + 0.01 * (i + a - 2 * b))
        st._Strain__G = sa(G) if sx.ctx().concrete is None else np.array(G, dtype=float)
        E, R, I1, I2, I3, W = st.strain, st.rotation, st.invariant1, st.invariant2, st.invariant3, st.angularvelocity
        ob = [('shapes', np.shape(E) == (n, 3, 3) and np.shape(R) == (n, 3, 3) and np.shape(I1) == (n,) and np.shape(I2) == (n,) and np.shape(I3) == (n,) and np.shape(W) == (n,))]
        I = np.eye(3)
        for i in range(n):
            e = [[((I[a, b] - G[i, a, b]) + (I[b, a] - G[i, b, a])) / 2 for b in range(3)] for a in range(3)]
            r = [[((I[a, b] - G[i, a, b]) - (I[b, a] - G[i, b, a])) / 2 for b in range(3)] for a in range(3)]
            ob.append((f'atom {i}: strain == sym(1 - G), rotation == skew(1 - G)', band(*[close(E[i, a, b], e[a][b], 1e-9, 1.0) for a in range(3) for b in range(3)], *[close(R[i, a, b], r[a][b], 1e-9, 1.0) for a in range(3) for b in range(3)])))
            tr = e[0][0] + e[1][1] + e[2][2]
            tr2 = sum(e[a][b] * e[b][a] for a in range(3) for b in range(3))
            det = (e[0][0] * (e[1][1] * e[2][2] - e[1][2] * e[2][1]) - e[0][1] * (e[1][0] * e[2][2] - e[1][2] * e[2][0]) + e[0][2] * (e[1][0] * e[2][1] - e[1][1] * e[2][0]))
            ob.append((f'atom {i}: invariants == trace, (tr^2 - tr(e^2))/2, det of the strain', band(close(I1[i], tr, 1e-9, 10.0), close(I2[i], (tr * tr - tr2) / 2, 1e-9, 10.0), close(I3[i], det, 1e-9, 10.0))))
            w2 = r[0][1] * r[0][1] + r[0][2] * r[0][2] + r[1][2] * r[1][2]
            ob.append((f'atom {i}: angular velocity >= 0 and its square == sum of the squared rotation components', band(W[i] >= 0, close(W[i] * W[i], w2, 1e-9, 10.0))))
        return ob
    return fn


def h_nye(kind):
    """Nye tensor for a lattice-correspondence field that varies LINEARLY in space, G(x) = G0 + sum_k A_k x_k (cut: G injected):
    alpha_jk == - eps_jim dG_mk/dx_i at every atom (the least-squares gradient is exact for a linear field), in particular zero for a
    uniform G (homogeneous deformation)"""
    def fn():
        import atomman as am
        pos, cutoff, pv, box = _cluster(kind)
        n = len(pos)
        s0 = am.System(atoms=am.Atoms(pos=pos), box=box, pbc=(False, False, False))
        nl = am.NeighborList(system=s0, cutoff=cutoff)
        st = am.defect.Strain(s0, neighbors=nl, p_vectors=pv.tolist())
        G0 = [[var(f'g{a}{b}', -2.0, 2.0) for b in range(3)] for a in range(3)]
        D = [[[var(f'd{a}{b}{k}', -1.0, 1.0) for k in range(3)] for b in range(3)] for a in range(3)]        # D[a][b][k] = dG_ab / dx_k
        G = np.empty((n, 3, 3), dtype=object)
        for i in range(n):
            for a in range(3):
                for b in range(3):
                    G[i, a, b] = G0[a][b] + sum(D[a][b][k] * float(pos[i, k]) for k in range(3))
        st._Strain__G = sa(G) if sx.ctx().concrete is None else np.array(G, dtype=float)
        nye = st.nye
        ob = [('nye: one 3x3 tensor per atom', np.shape(nye) == (n, 3, 3))]
        if np.shape(nye) != (n, 3, 3): return ob
        eps = {(0, 1, 2): 1, (1, 2, 0): 1, (2, 0, 1): 1, (0, 2, 1): -1, (2, 1, 0): -1, (1, 0, 2): -1}
        for i in range(n):
            exp = [[-sum(sg * D[m][k][ii] for (j2, ii, m), sg in eps.items() if j2 == j) for k in range(3)] for j in range(3)]
            ob.append((f'atom {i}: Nye tensor == - eps_jim dG_mk/dx_i of the linear field', band(*[close(nye[i, j, k], exp[j][k], 1e-9, 10.0) for j in range(3) for k in range(3)])))
        return ob
    return fn


def h_strain_samples():
    """CONCRETE SAMPLES (not solver verdicts): the p-vector paths whose symbolic exploration is out of reach (rotated crystal with axes=,
    p vectors built from a reference system, first + second shell lists: every angular comparison of match_pq goes to the nonlinear
    solver) on concrete deformation gradients; G == F^-T, strain/rotation from it, vanishing Nye tensor in a periodic crystal"""
    def fn():
        import atomman as am
        ob = []
        Fs = [np.eye(3) + np.array(e) for e in ([[0.01, 0.02, 0], [-0.01, 0.015, 0.005], [0, 0.01, -0.02]], [[0, 0.03, 0], [0, 0, 0], [0, 0, 0]], [[-0.02, 0, 0.01], [0.02, 0.01, 0], [-0.015, 0.005, 0.03]])]
        axes = np.array([[3, 4, 0], [-4, 3, 0], [0, 0, 5]], dtype=float)
        T = axes / np.linalg.norm(axes, axis=1)[:, None]
        for kind, how in (('sc', 'axes'), ('bcc', 'axes'), ('bcc', 'base'), ('bcc', 'plist'), ('sc', 'nested')):
            pos, cutoff, pv, box = _cluster(kind)
            if how == 'axes': pos = np.inner(pos, T)
            s0 = am.System(atoms=am.Atoms(pos=pos), box=box, pbc=(False, False, False))
            nl = am.NeighborList(system=s0, cutoff=cutoff)
            for nf, F in enumerate(Fs):
                s1 = am.System(atoms=am.Atoms(pos=np.inner(pos, F) + np.array([0.3, -0.2, 0.1])), box=box, pbc=(False, False, False))
                if how == 'axes': st = am.defect.Strain(s1, neighbors=nl, p_vectors=pv.tolist(), axes=axes)
                elif how == 'base': st = am.defect.Strain(s1, neighbors=nl, basesystem=s0, baseneighbors=nl)
                elif how == 'nested': st = am.defect.Strain(s1, neighbors=nl, p_vectors=[pv.tolist()])
                else: st = am.defect.Strain(s1, neighbors=nl, p_vectors=pv.tolist())
                try:
                    G = np.asarray(st.G, dtype=float)
                except ValueError as e:
                    ob.append((f'{kind}/{how}, F#{nf}: Strain accepts the documented p-vector input and solves G [{type(e).__name__}: {e}]', False)); continue
                ob.append((f'{kind}/{how}, F#{nf}: G == F^-T at every atom', bool(G.shape == (len(pos), 3, 3) and np.allclose(G, np.linalg.inv(F).T, atol=1e-9))))
                ob.append((f'{kind}/{how}, F#{nf}: strain == sym(1 - F^-T), rotation == skew(1 - F^-T)', bool(np.allclose(st.strain, ((np.eye(3) - np.linalg.inv(F).T) + (np.eye(3) - np.linalg.inv(F).T).T) / 2, atol=1e-9) and np.allclose(st.rotation, ((np.eye(3) - np.linalg.inv(F).T) - (np.eye(3) - np.linalg.inv(F).T).T) / 2, atol=1e-9))))
                ob.append((f'{kind}/{how}, F#{nf}: Nye tensor vanishes for the homogeneous deformation', bool(np.allclose(st.nye, 0, atol=1e-8))))
        # fully periodic crystal: deformed cell and atoms, Nye tensor zero, G uniform
        cell = am.System(atoms=am.Atoms(pos=np.array([[0, 0, 0], [0.5, 0.5, 0.5]]), atype=[1, 1]), box=am.Box.cubic(A), scale=True, symbols=['Fe'])
        s0 = cell.supersize(3, 3, 3)
        nl = am.NeighborList(system=s0, cutoff=0.9 * A)
        for nf, F in enumerate(Fs):
            s1 = am.System(atoms=am.Atoms(pos=np.inner(s0.atoms.pos, F)), box=am.Box(vects=np.inner(s0.box.vects, F)), pbc=(True, True, True))
            st = am.defect.Strain(s1, neighbors=nl, basesystem=s0, baseneighbors=nl)
            ob.append((f'periodic bcc 3x3x3, F#{nf}: G == F^-T, Nye == 0', bool(np.allclose(st.G, np.linalg.inv(F).T, atol=1e-9) and np.allclose(st.nye, 0, atol=1e-8))))
        return ob
    return fn


def setup(mode):
    """np.interp with concrete abscissae and symbolic ordinates (disregistry)"""
    import sys
    mod = sys.modules.get('atomman.defect.disregistry')
    if mod is None: return
    if mode == 'sym':
        base = sx.npshim
        class NPI:
            def __getattr__(self, n): return getattr(base, n)
            def interp(self, x, xp, fp):
                xp = np.asarray(xp, float); x = np.asarray(x, float); fp = np.asarray(fp, dtype=object)
                if not sx._has_sym(fp): return np.interp(x, xp, np.asarray(fp.tolist(), float))
                out = np.empty(len(x), dtype=object)
                for k, xv in enumerate(x):
                    if xv <= xp[0]: out[k] = fp[0]
                    elif xv >= xp[-1]: out[k] = fp[-1]
                    else:
                        i = int(np.searchsorted(xp, xv, side='right') - 1)
                        w = (xv - xp[i]) / (xp[i + 1] - xp[i])
                        out[k] = fp[i] + (fp[i + 1] - fp[i]) * float(w)
                return out.view(sx.SA)
        mod.np = NPI()


def cases(tier, seed=0):
    cs = []
    for pbc in ((True, True, True), (True, False, True)):
        cs.append(Case(f'displacement_{"".join("T" if p else "F" for p in pbc)}', h_displacement(pbc), bind=BIND, kernels=KER, maxcases=32, budget_s=170, timeout_ms=20000, weight=3,
                       descr=f'displacement() returns the imposed displacement through the periodic boundaries, pbc {pbc}'))
    for refbox in ('final', 'initial'):
      for ns, strain in enumerate(((0.02, -0.01, 0.03, 0.015, -0.02, 0.01), (-0.03, 0.02, 0.0, 0.0, 0.025, -0.015)) if tier == 'quick' else ((0.02, -0.01, 0.03, 0.015, -0.02, 0.01), (-0.03, 0.02, 0.0, 0.0, 0.025, -0.015), (0.0, 0.0, 0.0, 0.03, 0.0, 0.0), (0.03, 0.03, 0.03, 0.0, 0.0, 0.0))):
        cs.append(Case(f'displacement_deformed_{refbox}_{ns}', h_displacement_deformed(refbox, strain), bind=BIND, kernels=KER, maxcases=32, budget_s=170, timeout_ms=20000, weight=3,
                       descr=f'displacement() for a homogeneous deformation {strain} (stretches, shears) + symbolic translation + symbolic extra displacement of two atoms, atoms stored as periodic images, box_reference={refbox}'))
    for pbc in ((False, False, True), (True, False, False), (False, False, False)):
        cs.append(Case(f'slip_vector_pbc{"".join("T" if p else "F" for p in pbc)}', h_slip(False, True, pbc), bind=BIND, kernels=KER, maxcases=32, budget_s=170, timeout_ms=20000, weight=3,
                       descr=f'slip_vector with free surfaces cutting the slip plane (coordination varies from atom to atom), pbc {pbc}, atoms renumbered'))
    cs.append(Case('differential_displacement_ref1', h_dd(1), bind=BIND, kernels=KER, maxcases=32, budget_s=170, timeout_ms=20000, descr='DifferentialDisplacement with reference=1'))
    for tr, pm in ((False, False), (True, False), (False, True)):
        cs.append(Case(f'slip_vector{"_translated" if tr else ""}{"_renumbered" if pm else ""}', h_slip(tr, pm), bind=BIND, kernels=KER, maxcases=32, budget_s=170, timeout_ms=20000, weight=3,
                       descr=f'slip_vector for a rigid slip of the upper half crystal{", both systems translated together" if tr else ""}{", atoms renumbered consistently" if pm else ""}'))
    cs.append(Case('disregistry_normal_z', h_disregistry_z(), bind=BIND, kernels=KER, setup=setup, maxcases=32, budget_s=170, timeout_ms=20000, descr='disregistry across a slip plane normal to z located by planepos . n'))
    cs.append(Case('slip_vector_wrapped', h_slip(False, False, (True, False, True), wrap=True), bind=BIND, kernels=KER, maxcases=32, max_paths=40, budget_s=170, timeout_ms=20000, weight=3, descr='slip_vector when the slipped system was wrapped back into the cell (pbc TFT)'))
    cs.append(Case('disregistry', h_disregistry(), bind=BIND, kernels=KER, setup=setup, maxcases=32, budget_s=170, timeout_ms=20000, descr='disregistry across the slip plane equals the imposed slip'))
    cs.append(Case('differential_displacement', h_dd(), bind=BIND, kernels=KER, maxcases=32, budget_s=170, timeout_ms=20000, descr='DifferentialDisplacement: u_j - u_i for every neighbour pair'))
    KS = KER + ['Strain']
    cs.append(Case('strain_G_sc_plist', h_strain_G('sc', 'plist'), bind=BIND, kernels=KS, maxcases=8, max_paths=4, budget_s=170, timeout_ms=20000, weight=3,
                   descr='Strain.G for a symbolic homogeneous deformation gradient (9 entries within 3%) + symbolic translation of a simple-cubic cluster, one p-vector list for all atoms'))
    cs.append(Case('strain_samples', h_strain_samples(), kernels=KS, concrete_only=True, budget_s=120, descr='CONCRETE SAMPLES: Strain with axes=, basesystem=, two-shell p lists, periodic crystal on three deformation gradients'))
    cs.append(Case('strain_formulas', h_strain_formulas(), bind=BIND, kernels=KS, maxcases=8, budget_s=120, timeout_ms=20000, descr='strain, rotation, invariants, angular velocity from an arbitrary (injected) G'))
    for kind in ('sc', 'bcc'):
        cs.append(Case(f'nye_linear_{kind}', h_nye(kind), bind=BIND, kernels=KS, maxcases=8, budget_s=170, timeout_ms=20000, weight=2, descr=f'Nye tensor of an injected linear G field on a {kind} cluster (zero for uniform G)'))
    return cs
