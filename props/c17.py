# C17 Analysis tools recover a known imposed deformation exactly
import itertools, math
import numpy as np
from vlib.run import Case
from symx import core as sx, kernels
from symx.core import var, assume, eq, le, sa, band, bor, alleq, close

META = dict(
    explanation='displacement(), slip_vector.pyx (re-translated), disregistry() and DifferentialDisplacement.solve are executed on a concrete reference crystal (bcc 2x4x2, 32 atoms; concrete neighbour list) with a SYMBOLIC imposed deformation: an arbitrary bounded displacement of individual atoms (displacement through the periodic boundaries), a rigid slip vector of the upper half crystal (3 symbolic components), a common symbolic translation and a consistent renumbering.',
    functions=['atomman/core/displacement.py:displacement', 'atomman/core/dvect.pyx:dvect_c', 'atomman/defect/slip_vector.pyx:slip_vector,slip_vector_c', 'atomman/defect/disregistry.py:disregistry', 'atomman/defect/DifferentialDisplacement.py:solve',
               'atomman/core/System.py:dvect'],
    bounds=dict(quick='bcc a=2.87 supercell 2x4x2 (32 atoms), first-shell cutoff; displacement of 3 chosen atoms (one next to a periodic face) with |u_k| <= 0.2 a; rigid slip |s_k| <= 0.2 a of the half crystal above a plane between layers, periodicity (T,F,T); symbolic common translation |t_k| <= 0.5 a (atoms may leave the cell); one cyclic renumbering; slip vector also with free surfaces cutting the slip plane (pbc FFT, TFF, FFF); displacement() for two concrete homogeneous deformations (stretches and shears up to 3%) of a 16-atom cell with symbolic translation, symbolic extra displacement of two atoms, atoms stored as periodic images, both box_reference choices; DifferentialDisplacement with reference 0 and 1',
                thorough='same plus pbc TTT (two slip planes)'),
    outside=['Strain / nye_tensor (solve_G, solve_nye: lstsq on neighbour-vector matrices selected by an angular matching loop; with a symbolic deformation gradient every comparison forks, with a concrete one nothing is symbolic)',
             'a SYMBOLIC deformation gradient in displacement() (symbolic cell in the minimum-image kernel: 16/16 queries unknown after 380 s; the deformation is enumerated concretely instead)', 'other reference crystals and sizes (concrete reference: the verdict is per reference crystal, for all deformation amplitudes in the bound)', 'IEEE-754 rounding'],
    lemmas=[], cuts=['np.interp in disregistry replaced by its piecewise-linear definition for concrete abscissae and symbolic ordinates'],
    assumptions=['displacements below a quarter of the smallest cell width so that no periodic image switches'], trusted=['pyx2py translator (validated in C02/C03)'],
)
BIND = ['atomman.core.Box', 'atomman.core.System', 'atomman.core.Atoms', 'atomman.core.displacement', 'atomman.defect.disregistry', 'atomman.defect.DifferentialDisplacement', 'atomman.core.NeighborList']
KER = ['dvect', 'slip_vector', 'nlist', 'dmag']
A = 2.87


def reference(pbc):
    import atomman as am
    cell = am.System(atoms=am.Atoms(pos=np.array([[0, 0, 0], [0.5, 0.5, 0.5]]), atype=[1, 1]), box=am.Box.cubic(A), scale=True, symbols=['Fe'])
    s = cell.supersize(2, 4, 2)
    s.pbc = pbc
    return s


def h_displacement(pbc):
    def fn():
        import atomman as am
        s0 = reference(pbc)
        pos0 = np.array(s0.atoms.pos, dtype=float)
        n = s0.natoms
        # atoms whose displacement is symbolic: one in the interior, one on the lower face, one near the upper periodic face
        order = np.argsort(pos0[:, 0] + 10 * pos0[:, 1] + 100 * pos0[:, 2])
        chosen = [int(order[0]), int(order[n // 2]), int(order[-1])]
        U = np.zeros((n, 3), dtype=object)
        for c in chosen:
            for j in range(3): U[c, j] = var(f'u{c}_{j}', -0.2 * A, 0.2 * A)
        pos1 = pos0.astype(object) + U
        s1 = am.System(atoms=am.Atoms(pos=sa(pos1)), box=s0.box, pbc=pbc)
        ob = []
        for refbox in ('final', 'initial'):
            d = am.displacement(s0, s1, box_reference=refbox)
            ob.append((f'displacement shape ({refbox})', np.shape(d) == (n, 3)))
            for c in chosen:
                ob.append((f'displacement of atom {c} == imposed displacement ({refbox})', band(*[close(d[c, j], U[c, j], 1e-9, 10.0) for j in range(3)])))
            ob.append((f'undisplaced atoms have zero displacement ({refbox})', band(*[close(d[k, j], 0, 1e-9, 10.0) for k in range(n) if k not in chosen for j in range(3)])))
        # the second system wrapped back into the cell: still the imposed displacement through the boundary
        s1w = am.System(atoms=am.Atoms(pos=sa(pos1)), box=s0.box, pbc=pbc); s1w.wrap()
        d = am.displacement(s0, s1w)
        for c in chosen:
            ob.append((f'after wrapping the displaced system: displacement of atom {c} still the imposed one', band(*[close(d[c, j], U[c, j], 1e-9, 10.0) for j in range(3)])))
        return ob
    return fn


def h_displacement_deformed(refbox, strain):
    """homogeneous deformation + translation; some atoms of the deformed system stored as periodic images (moved by
    integer cell vectors of the box named by box_reference)"""
    def fn():
        import atomman as am
        cell = am.System(atoms=am.Atoms(pos=np.array([[0, 0, 0], [0.5, 0.5, 0.5]]), atype=[1, 1]), box=am.Box.cubic(A), scale=True, symbols=['Fe'])
        s0 = cell.supersize(2, 2, 2)
        pos0 = np.array(s0.atoms.pos, dtype=float)
        n = s0.natoms
        L = 2 * A
        e, g = strain[:3], strain[3:]                                           # stretches; shears xy, xz, yz (concrete: a symbolic cell makes every
        t = [var(f't{k}', -0.1, 0.1) for k in range(3)]                        #  minimum-image query nonlinear - measured 16/16 unknown after 380 s)
        extra = {1: [var(f'w1_{j}', -0.15, 0.15) for j in range(3)], n - 2: [var(f'w2_{j}', -0.15, 0.15) for j in range(3)]}
        # deformed cell in LAMMPS form: a=(lx,0,0) b=(xy,ly,0) c=(xz,yz,lz); F maps the old cell vectors onto the new ones
        lx, ly, lz = L * (1 + e[0]), L * (1 + e[1]), L * (1 + e[2])
        xy, xz, yz = L * g[0], L * g[1], L * g[2]
        box1 = am.Box(lx=lx, ly=ly, lz=lz, xy=xy, xz=xz, yz=yz)
        V1 = [[lx, 0, 0], [xy, ly, 0], [xz, yz, lz]]
        V0 = [[L, 0, 0], [0, L, 0], [0, 0, L]]
        Vw = V1 if refbox == 'final' else V0
        U = np.empty((n, 3), dtype=object); P1 = np.empty((n, 3), dtype=object)
        for i in range(n):
            r = pos0[i] / L                                                       # relative coordinates are kept by a homogeneous deformation
            new = [sum(float(r[k]) * V1[k][j] for k in range(3)) + t[j] + (extra[i][j] if i in extra else 0.0) for j in range(3)]
            for j in range(3): U[i, j] = new[j] - float(pos0[i, j])
            img = [(i % 3) - 1, ((i // 3) % 3) - 1, ((i // 2) % 2)]              # stored as a periodic image
            for j in range(3): P1[i, j] = new[j] + sum(img[k] * Vw[k][j] for k in range(3))
        s1 = am.System(atoms=am.Atoms(pos=sa(P1)), box=box1, pbc=(True, True, True))
        d = am.displacement(s0, s1, box_reference=refbox)
        ob = [('displacement shape', np.shape(d) == (n, 3))]
        for i in range(n):
            ob.append((f'atom {i}: displacement == imposed homogeneous deformation + translation, through the periodic boundaries of the {refbox} box', band(*[close(d[i, j], U[i, j], 1e-9, 10.0) for j in range(3)])))
        return ob
    return fn


def half_crystal(pbc=(True, False, True)):
    s0 = reference(pbc)
    pos0 = np.array(s0.atoms.pos, dtype=float)
    ys = np.unique(np.round(pos0[:, 1], 8))
    yplane = (ys[len(ys) // 2 - 1] + ys[len(ys) // 2]) / 2          # between two atomic layers
    upper = pos0[:, 1] > yplane
    return s0, pos0, upper, yplane, pbc


def h_slip(translate, permute, pbc=(True, False, True), wrap=False):
    def fn():
        import atomman as am
        s0, pos0, upper, yplane, _ = half_crystal(pbc)
        n = s0.natoms
        S = [var(f's{j}', -0.2 * A, 0.2 * A) for j in range(3)] if not wrap else [var('s0', -0.2 * A, -0.02 * A), var('s1', -0.2 * A, 0.2 * A), var('s2', -0.2 * A, -0.02 * A)]
        T = [var(f't{j}', -0.5 * A, 0.5 * A) for j in range(3)] if translate else [0.0, 0.0, 0.0]
        perm = list(range(n))
        if permute: perm = perm[5:] + perm[:5]
        p0 = np.empty((n, 3), dtype=object); p1 = np.empty((n, 3), dtype=object)
        for new, old in enumerate(perm):
            for j in range(3):
                p0[new, j] = pos0[old, j] + T[j]
                p1[new, j] = pos0[old, j] + T[j] + (S[j] if upper[old] else 0.0)
        box = s0.box
        a0 = am.System(atoms=am.Atoms(pos=sa(p0)), box=box, pbc=pbc); a1 = am.System(atoms=am.Atoms(pos=sa(p1)), box=box, pbc=pbc)
        if wrap:
            # the slipped system as wrap() leaves it: the slip has negative x and z components here, so exactly the slipped atoms that sat
            # on the lower x / z faces left the cell and are stored one cell vector higher; the slip vector is taken through the boundary
            Vb = np.array(box.vects, dtype=float)
            for new, old in enumerate(perm):
                if upper[old]:
                    if abs(pos0[old, 2]) < 1e-9:
                        for j in range(3): p1[new, j] = p1[new, j] + float(Vb[2, j])
                    if abs(pos0[old, 0]) < 1e-9:
                        for j in range(3): p1[new, j] = p1[new, j] + float(Vb[0, j])
            a1 = am.System(atoms=am.Atoms(pos=sa(p1)), box=box, pbc=pbc)
        # neighbour list of the (concrete) reference crystal, renumbered consistently
        nl = am.NeighborList(system=am.System(atoms=am.Atoms(pos=pos0[perm]), box=box, pbc=pbc), cutoff=0.9 * A)
        slip = am.defect.slip_vector(a0, a1, neighbors=nl)
        ob = [('slip vector shape', np.shape(slip) == (n, 3))]
        up = upper[perm]
        for i in range(n):
            across = sum(1 for j in nl[i] if up[int(j)] != up[i])
            sign = 1.0 if up[i] else -1.0            # own half's displacement relative to the other half: +s above, -s below
            ob.append((f'atom {i}: slip vector == (own half - other half displacement) x {across} neighbours across the plane', band(*[close(slip[i, j], sign * across * S[j], 1e-9, 10.0) for j in range(3)])))
        return ob
    return fn


def h_disregistry():
    def fn():
        import atomman as am
        s0, pos0, upper, yplane, pbc = half_crystal()
        n = s0.natoms
        S = [var(f's{j}', -0.2 * A, 0.2 * A) for j in range(3)]
        p1 = pos0.astype(object)
        for i in range(n):
            if upper[i]:
                for j in range(3): p1[i, j] = pos0[i, j] + S[j]
        s1 = am.System(atoms=am.Atoms(pos=sa(p1)), box=s0.box, pbc=pbc)
        coord, dis = am.defect.disregistry(s0, s1, m=[1, 0, 0], n=[0, 1, 0], planepos=[0, yplane, 0])
        ob = [('disregistry: one vector per in-plane coordinate', np.shape(dis) == (len(coord), 3) and len(coord) >= 2)]
        ob.append(('disregistry across the slip plane == the imposed slip at every coordinate', band(*[close(dis[i, j], S[j], 1e-9, 10.0) for i in range(len(coord)) for j in range(3)])))
        return ob
    return fn


def h_disregistry_z():
    """slip plane normal along z (n = [0,0,1], planepos given by its z component): the plane position is planepos . n"""
    def fn():
        import atomman as am
        pbc = (True, True, False)
        s0 = reference(pbc)
        pos0 = np.array(s0.atoms.pos, dtype=float)
        zs = np.unique(np.round(pos0[:, 2], 8))
        zplane = (zs[len(zs) // 2 - 1] + zs[len(zs) // 2]) / 2
        upper = pos0[:, 2] > zplane
        n = s0.natoms
        S = [var(f's{j}', -0.2 * A, 0.2 * A) for j in range(3)]
        p1 = pos0.astype(object)
        for i in range(n):
            if upper[i]:
                for j in range(3): p1[i, j] = pos0[i, j] + S[j]
        s1 = am.System(atoms=am.Atoms(pos=sa(p1)), box=s0.box, pbc=pbc)
        coord, dis = am.defect.disregistry(s0, s1, m=[1, 0, 0], n=[0, 0, 1], planepos=[0.3, 0.9, zplane])
        ob = [('disregistry (plane normal z): one vector per in-plane coordinate', np.shape(dis) == (len(coord), 3) and len(coord) >= 2)]
        ob.append(('disregistry across a slip plane normal to z, located by planepos . n, == the imposed slip at every coordinate', band(*[close(dis[i, j], S[j], 1e-9, 10.0) for i in range(len(coord)) for j in range(3)])))
        return ob
    return fn


def h_dd(reference=0):
    def fn():
        import atomman as am
        s0, pos0, upper, yplane, pbc = half_crystal()
        n = s0.natoms
        chosen = [0, n // 2, n - 1]
        U = np.zeros((n, 3), dtype=object)
        for c in chosen:
            for j in range(3): U[c, j] = var(f'u{c}_{j}', -0.2 * A, 0.2 * A)
        s1 = am.System(atoms=am.Atoms(pos=sa(pos0.astype(object) + U)), box=s0.box, pbc=pbc)
        nl = am.NeighborList(system=s0, cutoff=0.9 * A)
        dd = am.defect.DifferentialDisplacement(s0, s1, neighbors=nl, reference=reference)
        vecs = dd.ddvectors
        pairs = [(i, int(j)) for i in range(n) for j in nl[i]]
        ob = [('one differential displacement per neighbour pair', np.shape(vecs) == (len(pairs), 3))]
        if np.shape(vecs) != (len(pairs), 3): return ob
        for k, (i, j) in enumerate(pairs):
            if i in chosen or j in chosen:
                ob.append((f'pair ({i},{j}): differential displacement == u_j - u_i', band(*[close(vecs[k, c], U[j, c] - U[i, c], 1e-9, 10.0) for c in range(3)])))
        ob.append(('pairs of undisplaced atoms: zero', band(*[close(vecs[k, c], 0, 1e-9, 10.0) for k, (i, j) in enumerate(pairs) if i not in chosen and j not in chosen for c in range(3)])))
        return ob
    return fn


def setup(mode):
    """np.interp with concrete abscissae and symbolic ordinates (disregistry)"""
    import sys
    mod = sys.modules.get('atomman.defect.disregistry')
    if mod is None: return
    if mode == 'sym':
        base = sx.npshim
        class NPI:
            def __getattr__(self, n): return getattr(base, n)
            def interp(self, x, xp, fp):
                xp = np.asarray(xp, float); x = np.asarray(x, float); fp = np.asarray(fp, dtype=object)
                if not sx._has_sym(fp): return np.interp(x, xp, np.asarray(fp.tolist(), float))
                out = np.empty(len(x), dtype=object)
                for k, xv in enumerate(x):
                    if xv <= xp[0]: out[k] = fp[0]
                    elif xv >= xp[-1]: out[k] = fp[-1]
                    else:
                        i = int(np.searchsorted(xp, xv, side='right') - 1)
                        w = (xv - xp[i]) / (xp[i + 1] - xp[i])
                        out[k] = fp[i] + (fp[i + 1] - fp[i]) * float(w)
                return out.view(sx.SA)
        mod.np = NPI()


def cases(tier, seed=0):
    cs = []
    for pbc in ((True, True, True), (True, False, True)):
        cs.append(Case(f'displacement_{"".join("T" if p else "F" for p in pbc)}', h_displacement(pbc), bind=BIND, kernels=KER, maxcases=32, budget_s=170, timeout_ms=20000, weight=3,
                       descr=f'displacement() returns the imposed displacement through the periodic boundaries, pbc {pbc}'))
    for refbox in ('final', 'initial'):
      for ns, strain in enumerate(((0.02, -0.01, 0.03, 0.015, -0.02, 0.01), (-0.03, 0.02, 0.0, 0.0, 0.025, -0.015)) if tier == 'quick' else ((0.02, -0.01, 0.03, 0.015, -0.02, 0.01), (-0.03, 0.02, 0.0, 0.0, 0.025, -0.015), (0.0, 0.0, 0.0, 0.03, 0.0, 0.0), (0.03, 0.03, 0.03, 0.0, 0.0, 0.0))):
        cs.append(Case(f'displacement_deformed_{refbox}_{ns}', h_displacement_deformed(refbox, strain), bind=BIND, kernels=KER, maxcases=32, budget_s=170, timeout_ms=20000, weight=3,
                       descr=f'displacement() for a homogeneous deformation {strain} (stretches, shears) + symbolic translation + symbolic extra displacement of two atoms, atoms stored as periodic images, box_reference={refbox}'))
    for pbc in ((False, False, True), (True, False, False), (False, False, False)):
        cs.append(Case(f'slip_vector_pbc{"".join("T" if p else "F" for p in pbc)}', h_slip(False, True, pbc), bind=BIND, kernels=KER, maxcases=32, budget_s=170, timeout_ms=20000, weight=3,
                       descr=f'slip_vector with free surfaces cutting the slip plane (coordination varies from atom to atom), pbc {pbc}, atoms renumbered'))
    cs.append(Case('differential_displacement_ref1', h_dd(1), bind=BIND, kernels=KER, maxcases=32, budget_s=170, timeout_ms=20000, descr='DifferentialDisplacement with reference=1'))
    for tr, pm in ((False, False), (True, False), (False, True)):
        cs.append(Case(f'slip_vector{"_translated" if tr else ""}{"_renumbered" if pm else ""}', h_slip(tr, pm), bind=BIND, kernels=KER, maxcases=32, budget_s=170, timeout_ms=20000, weight=3,
                       descr=f'slip_vector for a rigid slip of the upper half crystal{", both systems translated together" if tr else ""}{", atoms renumbered consistently" if pm else ""}'))
    cs.append(Case('disregistry_normal_z', h_disregistry_z(), bind=BIND, kernels=KER, setup=setup, maxcases=32, budget_s=170, timeout_ms=20000, descr='disregistry across a slip plane normal to z located by planepos . n'))
    cs.append(Case('slip_vector_wrapped', h_slip(False, False, (True, False, True), wrap=True), bind=BIND, kernels=KER, maxcases=32, max_paths=40, budget_s=170, timeout_ms=20000, weight=3, descr='slip_vector when the slipped system was wrapped back into the cell (pbc TFT)'))
    cs.append(Case('disregistry', h_disregistry(), bind=BIND, kernels=KER, setup=setup, maxcases=32, budget_s=170, timeout_ms=20000, descr='disregistry across the slip plane equals the imposed slip'))
    cs.append(Case('differential_displacement', h_dd(), bind=BIND, kernels=KER, maxcases=32, budget_s=170, timeout_ms=20000, descr='DifferentialDisplacement: u_j - u_i for every neighbour pair'))
    return cs
