# C04 Supercells and re-oriented cells contain the same infinite crystal
import itertools, math
import numpy as np
from vlib.run import Case
from symx import core as sx
from symx.core import var, assume, eq, le, lt, sa, band, bor, alleq, close
from props.c01 import expect_vects

META = dict(
    explanation='System.supersize is executed on a symbolic cell (LAMMPS form, origin) with 2 atoms at symbolic box-relative positions, symbolic types and a symbolic (2,)-valued property for a list of multiplier tuples (positive, negative, two-sided); System.rotate (through supersize, the tolerance-ladder filter, miller.vector_crystal_to_cartesian and lammps.normalize) is executed on concrete cells of several families with symbolic atom coordinates for integer matrices of determinant 1..4; the primitive<->conventional conversions are replayed concretely on fcc/bcc/bct crystals.',
    functions=['atomman/core/System.py:System.supersize,rotate,normalize,box_set,atoms_prop,wrap', 'atomman/tools/miller.py:vector_crystal_to_cartesian,vector4to3', 'atomman/lammps/normalize.py:normalize',
               'atomman/dump/conventional_to_primitive/dump.py:dump', 'atomman/dump/primitive_to_conventional/dump.py:dump'],
    bounds=dict(quick='supersize: all LAMMPS-form cells (lengths [1,10], tilts 0 or 1e-3..5, origin within 5), 2 atoms anywhere in the cell, 7 multiplier tuples (replication count <= 12); rotate: 4 concrete cells x 6 integer matrices with |det| in {1,2,3,4}, 1 atom with symbolic coordinates in a sub-box of the cell + 1 concrete atom; conversions: 3 concrete crystals',
                thorough='more multiplier tuples (count <= 24); rotate: every cell x every integer matrix of the tables, one symbolic atom, the whole cell as 8 sub-boxes with 200 s each (unfinished work-lists are reported as remaining)'),
    outside=['IEEE-754 rounding; atoms within 1e-4 of a face of the re-oriented cell (tolerance ladder) are assumed away', 'rotate on symbolic cells', 'pbc and masses are not carried by supersize (not part of the stated property)',
             'conventional<->primitive conversions: concrete replays only (basis checks run on concrete crystals)'],
    lemmas=[], cuts=[], assumptions=['dead-zone assumption on tilts'], trusted=[],
)
BIND = ['atomman.core.Box', 'atomman.core.System', 'atomman.core.Atoms', 'atomman.tools.miller', 'atomman.tools.vect_angle', 'atomman.lammps.normalize']
NA = 2


def norm_size(m):
    if isinstance(m, tuple): return m
    return (0, m) if m > 0 else (m, 0)


def h_supersize(sizes):
    lohi = [norm_size(m) for m in sizes]
    mult = [hi - lo for lo, hi in lohi]
    M = mult[0] * mult[1] * mult[2]
    def fn():
        import atomman as am
        lx, ly, lz = [var(n, 1, 10) for n in ('lx', 'ly', 'lz')]
        xy, xz, yz = [var(n, -5, 5, deadzone=0.001) for n in ('xy', 'xz', 'yz')]
        O = [var(n, -5, 5) for n in ('ox', 'oy', 'oz')]
        V = expect_vects(lx, ly, lz, xy, xz, yz)
        box = am.Box(lx=lx, ly=ly, lz=lz, xy=xy, xz=xz, yz=yz, origin=O)
        S = [[var(f's{k}{i}', 0, 1) for i in range(3)] for k in range(NA)]
        T = [var(f't{k}', 1, 2, integer=True) for k in range(NA)]
        F = [[var(f'f{k}{i}', -5, 5) for i in range(2)] for k in range(NA)]
        P = [[O[j] + sum(S[k][i] * V[i][j] for i in range(3)) for j in range(3)] for k in range(NA)]
        s = am.System(atoms=am.Atoms(pos=sa(P), atype=sa(T) if sx.symbolic_mode() else np.array(T), f=sa(F)), box=box, symbols=['Al', 'Cu'])
        big = s.supersize(*sizes)
        ob = [('atom count scales by the replication count', big.natoms == NA * M)]
        bv = big.box.vects; bo = big.box.origin
        for i in range(3):
            ob.append((f'cell vector {i} multiplied by {mult[i]}', band(*[eq(bv[i][j], mult[i] * V[i][j]) for j in range(3)])))
        ob.append(('origin shifted by the lower multipliers', band(*[eq(bo[j], O[j] + sum(lohi[i][0] * V[i][j] for i in range(3))) for j in range(3)])))
        ob.append(('volume scales by the replication count', eq(big.box.volume, M * (lx * ly * lz), 1e4)))
        if big.natoms != NA * M: return ob
        # which (original atom, offset) is each result atom?  decided by the solver for every candidate
        offs = list(itertools.product(*[range(lo, hi) for lo, hi in lohi]))
        found = {}
        pos = big.atoms.pos
        for r in range(big.natoms):
            i = r % NA
            hit = None
            for k in offs:
                want = [P[i][j] + sum(k[c] * V[c][j] for c in range(3)) for j in range(3)]
                cond = band(*[close(pos[r, j], want[j], 1e-9, 100.0) for j in range(3)])
                if sx.symbolic_mode():
                    c = sx.ctx()
                    if isinstance(cond, bool):
                        ok = cond
                    else:
                        import z3
                        ok = c.check(z3.Not(cond.t)) == z3.unsat
                else:
                    ok = bool(cond)
                if ok: hit = k; break
            found[r] = hit
            ob.append((f'result atom {r} is original atom {i} shifted by a whole lattice vector within the multiplier range', hit is not None))
            ob.append((f'result atom {r}: type and property of original atom {i}', band(eq(big.atoms.atype[r], T[i]), eq(big.atoms.f[r, 0], F[i][0]), eq(big.atoms.f[r, 1], F[i][1]))))
        pairs = [(r % NA, found[r]) for r in range(big.natoms)]
        ob.append(('every (original atom, lattice offset) pair occurs exactly once (no duplicates, each atom represented equally often)',
                   None not in [p[1] for p in pairs] and len(set(pairs)) == NA * M and set(pairs) == set(itertools.product(range(NA), offs))))
        ob.append(('symbols carried over', tuple(big.symbols) == ('Al', 'Cu')))
        ob.append(('input untouched', band(alleq(s.atoms.pos, P), alleq(s.box.vects, V), alleq(s.box.origin, O), s.natoms == NA)))
        return ob
    return fn


def h_supersize_refuse():
    def fn():
        import atomman as am
        s = am.System(atoms=am.Atoms(pos=[[0.1, 0.2, 0.3]]), box=am.Box.cubic(2.0))
        ob = []
        for nm, args, exc in (('zero multiplier', (0, 1, 1), (ValueError, TypeError)), ('zero-width tuple', ((0, 0), 1, 1), ValueError), ('non-integer multiplier', (1.5, 1, 1), TypeError), ('tuple with positive lower bound', ((1, 2), 1, 1), TypeError)):
            try:
                s.supersize(*args); ob.append((nm + ' refused', False))
            except exc:
                ob.append((nm + ' refused', True))
        return ob
    return fn


CELLS = {
    'cubic': dict(vects=[[2.0, 0, 0], [0, 2.0, 0], [0, 0, 2.0]], origin=[0, 0, 0]),
    'ortho_origin': dict(vects=[[2.0, 0, 0], [0, 2.5, 0], [0, 0, 3.0]], origin=[0.4, -0.3, 0.7]),
    'hex': dict(vects=[[2.0, 0, 0], [-1.0, 1.7320508075688772, 0], [0, 0, 3.2]], origin=[0, 0, 0]),
    'triclinic': dict(vects=[[3.0, 0, 0], [0.7, 2.5, 0], [-0.4, 0.3, 2.0]], origin=[0.1, 0.2, -0.3]),
}
UVWS = {
    'swap': [[0, 1, 0], [0, 0, 1], [1, 0, 0]],                # det 1
    'shear': [[1, 0, 0], [1, 1, 0], [0, 0, 1]],               # det 1
    '110': [[1, 1, 0], [-1, 1, 0], [0, 0, 1]],                # det 2
    'neg': [[1, 0, -1], [0, 1, 0], [1, 0, 1]],                # det 2
    'det3': [[1, 1, 1], [-1, 1, 0], [0, -1, 1]],              # det 3
    'det4': [[2, 0, 0], [0, 1, 1], [0, -1, 1]],               # det 4
    'lefthand': [[0, 1, 0], [1, 0, 0], [0, 0, 1]],            # det -1 (left-handed order: normalize reverses the third vector)
    'left_det2': [[1, 1, 0], [1, -1, 0], [0, 0, 1]],          # det -2
    'skew2': [[0, -1, -2], [1, 1, 2], [2, 2, 2]],             # det -2, indices up to 2: the b+c corner of the new cell lies far outside the hull of the other corners
}


def h_rotate(cname, uname, sub):
    cell = CELLS[cname]; U = np.array(UVWS[uname]); det = int(round(abs(np.linalg.det(U))))
    V = np.array(cell['vects'], float); O = np.array(cell['origin'], float)
    def fn():
        import atomman as am
        box = am.Box(vects=V, origin=O)
        S0 = [var(f's0{i}', *sub[i]) for i in range(3)]
        S1 = [0.31, 0.57, 0.83]                                  # a second, concrete atom in general position
        F = [var('f0', -5, 5), var('f1', -5, 5)]
        Ss = [S0, S1]
        P = [[O[j] + sum(Ss[k][i] * float(V[i, j]) for i in range(3)) for j in range(3)] for k in range(2)]
        s = am.System(atoms=am.Atoms(pos=sa(P), atype=[1, 2], f=sa(F)), box=box, symbols=['Al', 'Cu'])
        # stay away from the faces of the re-oriented cell (documented tolerance ladder: 1e-4).  rotate() resets the
        # origin of the intermediate cell to (0,0,0), so the faces are those of the lattice U.V through the Cartesian origin
        newV = U.dot(V); inv_new = np.linalg.inv(newV)
        if sx.symbolic_mode():
            # ... for EVERY lattice image of the symbolic atom: the |det| images inside the new cell differ by the cosets
            # n.U^-1 mod 1 of the original lattice in the new one
            Uinv = np.linalg.inv(U.astype(float))
            offs = sorted({tuple(np.round((np.array(n_).dot(Uinv)) % 1.0, 9) % 1.0) for n_ in itertools.product(range(-3, 4), repeat=3)})
            for c in range(3):
                snew = sum(P[0][j] * float(inv_new[j, c]) for j in range(3))
                for o_ in sorted({o[c] for o in offs}):
                    t_ = snew + float(o_)
                    fr = t_ - t_.floor() if sx.is_sym(t_) else t_ - math.floor(t_)
                    assume(fr >= 0.001); assume(fr <= 0.999)
        new, T = s.rotate(U, return_transform=True)
        T = np.asarray(T, dtype=float)
        nb = new.box; nV = np.asarray(nb.vects, dtype=float); nO = np.asarray(nb.origin, dtype=float)
        ob = [('atom count == |det| * natoms', new.natoms == det * 2), ('volume == |det| * volume', abs(nb.volume - det * abs(np.linalg.det(V))) < 1e-9 * nb.volume),
              ('result is LAMMPS compatible', bool(nb.is_lammps_norm())), ('returned transformation is a proper rotation', np.allclose(T.dot(T.T), np.eye(3), atol=1e-9) and abs(np.linalg.det(T) - 1) < 1e-9),
              ('new cell vectors are the rotated integer combinations of the old ones (third one reversed for a left-handed set)', np.allclose(nV, (U.dot(V) * (np.array([[1], [1], [-1]]) if np.linalg.det(U.dot(V)) < 0 else 1)).dot(T.T), atol=1e-9))]
        if new.natoms != det * 2: return ob
        inv_n = np.linalg.inv(nV); inv_o = np.linalg.inv(V)
        counts = [0, 0]
        for r in range(new.natoms):
            pr = [new.atoms.pos[r, j] for j in range(3)]
            sn = [sum((pr[j] - nO[j]) * inv_n[j, c] for j in range(3)) for c in range(3)]
            ob.append((f'result atom {r} inside the new cell', band(*[band(le(-1e-9, x), lt(x, 1 + 1e-9)) for x in sn])))
            # which original atom?  identified by its (concrete) type; its property must be that atom's
            which = int(new.atoms.atype[r]) - 1
            counts[which] += 1
            ob.append((f'result atom {r}: carries the property of the original atom of its type', eq(new.atoms.f[r], F[which])))
            # back-rotated position minus the original position is a whole lattice vector of the ORIGINAL cell
            back = [sum(float(T[j, a]) * pr[j] for j in range(3)) for a in range(3)]          # T^T pos'
            d = [sum((back[a] - P[which][a]) * float(inv_o[a, c]) for a in range(3)) for c in range(3)]
            for c in range(3):
                if sx.is_sym(d[c]):
                    ob.append((f'result atom {r}: maps back onto original atom {which} modulo the original lattice (direction {c})', bor(*[close(d[c], w, 1e-7) for w in range(-8, 9)])))
                else:
                    ob.append((f'result atom {r}: maps back onto original atom {which} modulo the original lattice (direction {c})', abs(d[c] - round(d[c])) < 1e-6))
        ob.append(('each original atom represented |det| times', counts == [det, det]))
        # no two result atoms coincide
        pos = new.atoms.pos
        for a in range(new.natoms):
            for b in range(a + 1, new.natoms):
                if int(new.atoms.atype[a]) != int(new.atoms.atype[b]): continue      # copies of the SAME original atom must be distinct (the two input atoms may be arbitrarily close)
                dd = sum((pos[a, j] - pos[b, j]) * (pos[a, j] - pos[b, j]) for j in range(3))
                ob.append((f'result atoms {a},{b} distinct', (dd >= 1e-6) if sx.is_sym(dd) else dd >= 1e-6))
        ob.append(('input untouched', band(alleq(s.atoms.pos, P), np.allclose(np.asarray(s.box.vects, dtype=float), V))))
        return ob
    return fn


def h_rotate_refuse():
    def fn():
        import atomman as am
        s = am.System(atoms=am.Atoms(pos=[[0.1, 0.2, 0.3]]), box=am.Box.cubic(2.0))
        ob = []
        for nm, U in (('parallel vectors', [[1, 1, 0], [2, 2, 0], [0, 0, 1]]), ('non-integer indices', [[1, 0.5, 0], [0, 1, 0], [0, 0, 1]]), ('4-index vectors on a cubic cell', [[1, 0, -1, 0], [0, 1, -1, 0], [0, 0, 0, 1]])):
            try:
                s.rotate(np.array(U)); ob.append((nm + ' refused', False))
            except ValueError:
                ob.append((nm + ' refused', True))
        # atoms whose images lie 1e-5 .. 1.1e-4 from faces of the new cell (once lost by the tolerance ladder)
        for cn, un, S0 in (('ortho_origin', 'det3', [0.1323232333333331, 0.12109989999999973, 0.4332132333333333]), ('triclinic', 'det4', [0.52, 0.90209, 0.1498898])):
            cell = CELLS[cn]; Uv = np.array(UVWS[un]); V = np.array(cell['vects'], float); O = np.array(cell['origin'], float)
            Pp = [[O[j] + sum(S[i] * V[i, j] for i in range(3)) for j in range(3)] for S in (S0, [0.31, 0.57, 0.83])]
            s2 = am.System(atoms=am.Atoms(pos=np.array(Pp), atype=[1, 2]), box=am.Box(vects=V, origin=O), symbols=['Al', 'Cu'])
            try:
                n2 = s2.rotate(Uv); okr = n2.natoms == 2 * int(round(abs(np.linalg.det(Uv)))) and np.bincount(n2.atoms.atype).tolist()[1:] == [n2.natoms // 2] * 2
            except ValueError as e:
                okr = False
            ob.append((f'{cn} cell, uvws {un}: an atom with images 1e-5 and 1.1e-4 from faces of the new cell is neither lost nor duplicated', bool(okr)))
        same = s.rotate(np.eye(3, dtype=int))
        ob.append(('identity matrix returns the same crystal', same.natoms == 1 and np.allclose(same.atoms.pos, s.atoms.pos) and np.allclose(same.box.vects, s.box.vects)))
        return ob
    return fn


def h_conversions():
    """concrete replays: conventional -> primitive -> conventional returns the same cell and atoms modulo the lattice"""
    def fn():
        import atomman as am
        ob = []
        crystals = {
            'fcc/f': (am.Box.cubic(4.05), [[0, 0, 0], [0.5, 0.5, 0], [0.5, 0, 0.5], [0, 0.5, 0.5]], 'f', 4),
            'bcc/i': (am.Box.cubic(2.87), [[0, 0, 0], [0.5, 0.5, 0.5]], 'i', 2),
            'bct/i': (am.Box.tetragonal(3.0, 4.2), [[0, 0, 0], [0.5, 0.5, 0.5]], 'i', 2),
            'base-centred orthorhombic/c': (am.Box.orthorhombic(3.0, 4.0, 5.0), [[0, 0, 0], [0.5, 0.5, 0]], 'c', 2),
            'rhombohedral, hexagonal axes obverse/t1': (am.Box.hexagonal(3.0, 7.5), [[0, 0, 0], [2 / 3, 1 / 3, 1 / 3], [1 / 3, 2 / 3, 2 / 3]], 't1', 3),
            'rhombohedral, hexagonal axes reverse/t2': (am.Box.hexagonal(3.0, 7.5), [[0, 0, 0], [1 / 3, 2 / 3, 1 / 3], [2 / 3, 1 / 3, 2 / 3]], 't2', 3),
        }
        for name, (box, spos, setting, mult) in crystals.items():
            conv = am.System(atoms=am.Atoms(pos=np.array(spos, float), atype=[1] * len(spos)), box=box, scale=True, symbols=['Al'])
            prim = conv.dump('conventional_to_primitive', setting=setting)
            ok = prim.natoms * mult == conv.natoms and abs(prim.box.volume * mult - conv.box.volume) < 1e-9 * conv.box.volume
            back = prim.dump('primitive_to_conventional', setting=setting)
            ok = ok and back.natoms == conv.natoms and np.allclose(sorted([back.box.a, back.box.b, back.box.c]), sorted([box.a, box.b, box.c])) and abs(back.box.volume - conv.box.volume) < 1e-9 * conv.box.volume
            # same atoms modulo the lattice: every atom of `back` sits on an atom of the conventional crystal (after undoing the rotation by matching distances)
            d = np.array([[back.dmag(i, j) for j in range(back.natoms)] for i in range(back.natoms)])
            d0 = np.array([[conv.dmag(i, j) for j in range(conv.natoms)] for i in range(conv.natoms)])
            ok = ok and np.allclose(sorted(d.flat), sorted(d0.flat), atol=1e-8)
            ob.append((f'{name}: conventional -> primitive -> conventional (counts, volumes, lengths, interatomic distances)', bool(ok)))
            # atom by atom: conventional -> primitive -> conventional, undoing both returned rotations, lands every atom on an atom of
            # the ORIGINAL conventional cell modulo its lattice (the same setting, not its mirror/180-degree twin), and the result
            # can be reduced to the primitive cell again
            prim1, T1 = conv.dump('conventional_to_primitive', setting=setting, return_transform=True)
            back1, T2 = prim1.dump('primitive_to_conventional', setting=setting, return_transform=True)
            R = np.asarray(T2, float).dot(np.asarray(T1, float))
            invc = np.linalg.inv(conv.box.vects)
            okrt = back1.natoms == conv.natoms
            for q in np.asarray(back1.atoms.pos):
                q0 = R.T.dot(q)
                rel = np.array([(q0 - p0).dot(invc) for p0 in np.asarray(conv.atoms.pos)])
                okrt = okrt and bool(np.any(np.all(np.abs(rel - np.round(rel)) < 1e-6, axis=1)))
            try:
                again = back1.dump('conventional_to_primitive', setting=setting); okrt = okrt and again.natoms == prim1.natoms
            except ValueError:
                okrt = False
            ob.append((f'{name}: conventional -> primitive -> conventional returns the original atoms (rotated back, modulo the conventional lattice) and can be reduced again', bool(okrt)))
            # the returned transformations: new cell vectors == rotated integer (centring) combinations of the old ones, and every
            # atom of the result, rotated back, sits on an atom of the source modulo the source lattice
            from atomman.tools import miller
            for label, src, dst_T, uv in (('primitive_to_conventional', prim.normalize(), None, miller.vector_conventional_to_primitive(np.identity(3), setting=setting)),
                                          ('conventional_to_primitive', conv, None, miller.vector_primitive_to_conventional(np.identity(3), setting=setting))):
                dst, T = src.dump(label, setting=setting, return_transform=True)
                T = np.asarray(T, float)
                okT = np.allclose(T.dot(T.T), np.eye(3), atol=1e-9) and abs(np.linalg.det(T) - 1) < 1e-9
                okT = okT and np.allclose((uv.dot(src.box.vects)).dot(T.T), dst.box.vects, atol=1e-8)
                inv = np.linalg.inv(src.box.vects)
                for q in np.asarray(dst.atoms.pos):
                    backq = T.T.dot(q)
                    rel = np.array([(backq - p0).dot(inv) for p0 in np.asarray(src.atoms.pos)])
                    okT = okT and bool(np.any(np.all(np.abs(rel - np.round(rel)) < 1e-6, axis=1)))
                ob.append((f'{name}: {label}(return_transform=True): the returned matrix is the proper rotation that carries the centring combinations of the source vectors onto the new cell and every new atom back onto a source atom modulo the source lattice', bool(okT)))
        return ob
    return fn


def cases(tier, seed=0):
    cs = []
    sizes = [(2, 1, 1), (1, 2, 3), (-2, 1, 1), (1, -3, 2), ((-1, 1), 1, 2), (2, (-2, 1), 1), (1, 1, (-1, 2))]
    if tier == 'thorough': sizes += [(2, 2, 3), ((-1, 2), (-1, 1), 2), (-2, -2, -2), (4, 1, 3)]
    for sz in sizes:
        cs.append(Case('supersize_' + '_'.join(str(x).replace(' ', '') for x in sz), h_supersize(sz), bind=BIND, budget_s=170 if tier == 'quick' else 400, timeout_ms=15000,
                       descr=f'supersize{sz} on a symbolic cell with 2 symbolic atoms'))
    cs.append(Case('supersize_refusals', h_supersize_refuse(), concrete_only=True, budget_s=60, descr='documented refusals of supersize'))
    combos = [('triclinic', 'lefthand'), ('ortho_origin', 'left_det2'), ('cubic', '110'), ('cubic', 'det3'), ('ortho_origin', 'swap'), ('ortho_origin', 'det4'), ('hex', 'shear'), ('hex', 'neg'), ('triclinic', '110'), ('triclinic', 'neg'), ('cubic', 'skew2')]
    if tier == 'thorough': combos = list(itertools.product(CELLS, UVWS))
    for cn, un in combos:
        for n, sub in enumerate([[(0.05, 0.45)] * 3, [(0.55, 0.95), (0.05, 0.45), (0.55, 0.95)]] if tier == 'quick' else [[(a, a + 0.45) for a in lo] for lo in itertools.product((0.03, 0.52), repeat=3)]):
            cs.append(Case(f'rotate_{cn}_{un}_{n}', h_rotate(cn, un, sub), bind=BIND, budget_s=120 if tier == 'quick' else 200, timeout_ms=10000, max_paths=3000, weight=2,
                           descr=f'rotate {cn} cell by {UVWS[un]} (|det| {int(round(abs(np.linalg.det(np.array(UVWS[un])))))}), one atom symbolic in sub-box {sub}'))
    cs.append(Case('rotate_refusals', h_rotate_refuse(), concrete_only=True, budget_s=60, descr='documented refusals of rotate; identity'))
    cs.append(Case('conversions', h_conversions(), concrete_only=True, budget_s=120, descr='conventional<->primitive on concrete crystals (replay only)'))
    return cs
