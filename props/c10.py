# C10 JSON/XML data-model round trip preserves values, shapes, units, system content
import itertools, math
import numpy as np
from vlib.run import Case
from symx import core as sx
from symx.core import var, assume, eq, le, sa, band, bor, alleq, close
from props.c09 import install, BASE
from props.c01 import expect_vects

META = dict(
    explanation='uc.model / uc.value_unit, Box.model, Atoms.model, System.model / System(model=), ElasticConstants.model are executed at the DataModelDict level with symbolic values AND symbolic working units: the model is written under one symbolic set of base units (m, kg, s, C, K) and read back under a second, independent set; for every quantity stored with a unit the physical value (number / unit factor) must be the same, with unit=None the raw number must be preserved, and box-scaled positions must reproduce the Cartesian positions under the box that was read.',
    functions=['atomman/unitconvert.py:model,value_unit,error_unit,set_in_units,get_in_units,parse', 'atomman/core/Box.py:Box.model', 'atomman/core/Atoms.py:Atoms.model, Atoms(model=)', 'atomman/core/System.py:System.model, System(model=)',
               'atomman/core/ElasticConstants.py:ElasticConstants.model', 'numericalunits.set_derived_units_and_constants'],
    bounds=dict(quick='values of shapes (), (3,), (2,2), (2,3,3); units angstrom, eV/angstrom^3, GPa, None; a LAMMPS-form cell with origin; 2 atoms with a float vector property, an int property; property units angstrom / scaled / None / eV; 21 elastic constants; two independent symbolic working-unit systems',
                thorough='same'),
    outside=['the JSON and XML TEXT encodings (json.dumps / xmltodict are C/regex boundaries; tokens do not survive number parsing): exercised in the concrete witness replay only', 'masses are stored without a unit by the model format (raw numbers)', 'string-valued properties'],
    lemmas=[], cuts=[], assumptions=['base units arbitrary positive reals (see C09)'], trusted=[],
)
BIND = ['atomman.unitconvert', 'atomman.core.Box', 'atomman.core.Atoms', 'atomman.core.System', 'atomman.core.ElasticConstants']


def roundtrip_text(model):
    """concrete mode only: through the JSON and XML text encodings"""
    from DataModelDict import DataModelDict as DM
    if 'value' in model:                 # a bare value/unit record has several roots: give it one for the text encodings
        w = DM(); w['root'] = model
        return DM(w.json())['root'], DM(w.xml())['root']
    return DM(model.json()), DM(model.xml())


def ufac(uc, unit):
    """unit factor under the CURRENT working units, taken from the unit table itself (independent of uc.parse and of anything
    it may cache): plain Python evaluation of the expression over the table entries"""
    if unit is None or unit == 'scaled': return 1
    return eval(unit.replace('^', '**'), {'__builtins__': {}}, dict(uc.unit))


def phys_same(read, orig, p1, p2, S=1e6):
    """read / p2 == orig / p1 (cross-multiplied; unit factors are positive)"""
    return eq(read * p1, orig * p2, S) if (sx.is_sym(read) or sx.is_sym(orig) or sx.is_sym(p1) or sx.is_sym(p2)) else abs(read * p1 - orig * p2) <= 1e-9 * max(abs(orig * p2), 1e-300)


def h_value(shape, unit, transposed=False):
    def fn():
        uc = install('')
        vals = np.empty(shape, dtype=object)
        for k in np.ndindex(shape): vals[k] = var('v' + ''.join(map(str, k)), -100, 100)
        arr = sa(vals) if shape else vals[()]
        if transposed:
            # the same values handed over as a transposed (not C-contiguous) view of the transposed storage
            arr = sa(np.ascontiguousarray(vals.T)).T if sx.symbolic_mode() else np.ascontiguousarray(np.asarray(vals.tolist(), dtype=float).T).T
        p1 = ufac(uc, unit)
        m = uc.model(arr, unit)
        ob = []
        want_keys = ['value'] + (['shape'] if len(shape) > 1 else []) + (['unit'] if unit is not None else [])
        ob.append(('model has value (+shape for rank>1) (+unit)', list(m.keys()) == want_keys))
        if len(shape) > 1: ob.append(('shape recorded', list(m['shape']) == list(shape)))
        same = uc.value_unit(m)
        ob.append(('read back under the same working units: identical values and shape', band(np.shape(same) == shape, *[eq(np.asarray(same, dtype=object)[k], vals[k], 1e3) for k in np.ndindex(shape)])))
        models = [m]
        if not sx.symbolic_mode():
            models += list(roundtrip_text(m))
        uc = install('_w2')
        p2 = ufac(uc, unit)
        for n, mm in enumerate(models):
            back = np.asarray(uc.value_unit(mm), dtype=object)
            ob.append((f'shape after reading ({["model", "json", "xml"][n]})', np.shape(back) == shape))
            if np.shape(back) != shape: continue
            for k in np.ndindex(shape):
                if unit is None:
                    ob.append((f'unit=None: raw number preserved {k}', eq(back[k], vals[k])))
                else:
                    ob.append((f'physical value independent of the working units {k} ({["model", "json", "xml"][n]})', phys_same(back[k], vals[k], p1, p2)))
        return ob
    return fn


def mk_box():
    import atomman as am
    lx, ly, lz = [var(n, 1, 10) for n in ('lx', 'ly', 'lz')]
    xy, xz, yz = [var(n, -5, 5, deadzone=0.001) for n in ('xy', 'xz', 'yz')]
    O = [var(n, -5, 5) for n in ('ox', 'oy', 'oz')]
    return am.Box(lx=lx, ly=ly, lz=lz, xy=xy, xz=xz, yz=yz, origin=O), expect_vects(lx, ly, lz, xy, xz, yz), O


def h_box(unit):
    def fn():
        import atomman as am
        uc = install('')
        box, V, O = mk_box()
        p1 = ufac(uc, unit)
        m = box.model(length_unit=unit)
        uc = install('_w2'); p2 = ufac(uc, unit)
        new = am.Box(model=m)
        ob = []
        nV = new.vects; nO = new.origin
        for i in range(3):
            for j in range(3):
                ob.append((f'cell vector [{i}{j}]: same physical length under the new working units', phys_same(nV[i][j], V[i][j], p1, p2)))
            ob.append((f'origin [{i}]', phys_same(nO[i], O[i], p1, p2)))
        if not sx.symbolic_mode():
            for mm in roundtrip_text(m):
                b2 = am.Box(model=mm)
                ob.append(('through the text encodings', bool(np.allclose(np.asarray(b2.vects, float), np.asarray(nV, float)) and np.allclose(np.asarray(b2.origin, float), np.asarray(nO, float)))))
        return ob
    return fn


def h_system(pos_unit, box_unit, via_dump=False):
    def fn():
        import atomman as am
        uc = install('')
        box, V, O = mk_box()
        P = [[var(f'p{k}{j}', -20, 20) for j in range(3)] for k in range(2)]
        F = [[var(f'f{k}{j}', -5, 5) for j in range(2)] for k in range(2)]
        E = [var(f'e{k}', -5, 5) for k in range(2)]
        s = am.System(atoms=am.Atoms(pos=sa(P), atype=[2, 1], force2=sa(F), energy=sa(E), count=np.array([4, 6])), box=box, pbc=(True, False, True), symbols=['Al', None, 'Cu'], masses=[26.98, None, 63.55])       # a third, declared but unused type
        pu = {'atype': None, 'pos': pos_unit, 'force2': None, 'energy': 'eV', 'count': None}
        pL1 = ufac(uc, pos_unit); pB1 = ufac(uc, box_unit); pE1 = ufac(uc, 'eV')
        if via_dump:
            # the list form of the property units, through the dump interface
            names = list(pu)
            m = s.dump('system_model', box_unit=box_unit, prop_name=names, unit=[pu[k] for k in names])
        else:
            m = s.model(box_unit=box_unit, prop_unit=pu)
        ob = [('periodic flags stored', list(m['atomic-system']['periodic-boundary-condition']) == [True, False, True])]
        models = [m] + (list(roundtrip_text(m)) if not sx.symbolic_mode() else [])
        uc = install('_w2')
        pL2 = ufac(uc, pos_unit); pB2 = ufac(uc, box_unit); pE2 = ufac(uc, 'eV')
        for n, mm in enumerate(models):
            tag = ['model', 'json', 'xml'][n]
            new = am.System(model=mm)
            ob.append((f'{tag}: natoms, types, symbols, masses, pbc', band(new.natoms == 2, [int(t) for t in new.atoms.atype] == [2, 1], new.natypes == 3, tuple(new.symbols) == ('Al', None, 'Cu'), tuple(new.masses) == (26.98, None, 63.55),
                                                                          tuple(bool(x) for x in new.pbc) == (True, False, True))))
            if new.natoms != 2: continue
            nV = new.box.vects; nO = new.box.origin
            ob.append((f'{tag}: cell and origin (box_unit={box_unit})', band(*[phys_same(nV[i][j], V[i][j], pB1, pB2) for i in range(3) for j in range(3)], *[phys_same(nO[j], O[j], pB1, pB2) for j in range(3)])))
            if pos_unit == 'scaled':
                # box-relative storage: Cartesian positions under the box that was read
                rel = s.box.position_cartesian_to_relative(sa(P)) if sx.symbolic_mode() else None
                for k in range(2):
                    for j in range(3):
                        # new pos = nO + rel . nV, and rel . V + O = P: with the box scaled by pB2/pB1 the position scales the same way
                        ob.append((f'{tag}: scaled position {k}{j} re-expressed under the read box', phys_same(new.atoms.pos[k, j], P[k][j], pB1, pB2)))
            else:
                for k in range(2):
                    for j in range(3):
                        ob.append((f'{tag}: position {k}{j} (unit {pos_unit})', phys_same(new.atoms.pos[k, j], P[k][j], pL1, pL2)))
            ob.append((f'{tag}: unit-less vector property raw values and shape', band(np.shape(new.atoms.force2) == (2, 2), *[eq(new.atoms.force2[k, j], F[k][j]) for k in range(2) for j in range(2)])))
            ob.append((f'{tag}: energy property in eV', band(*[phys_same(new.atoms.energy[k], E[k], pE1, pE2) for k in range(2)])))
            ob.append((f'{tag}: integer property', [int(c) for c in new.atoms.count] == [4, 6]))
        return ob
    return fn


def h_elastic(unit, crystal_system):
    def fn():
        import atomman as am
        uc = install('')
        C = [[None] * 6 for _ in range(6)]
        for i in range(6):
            for j in range(i, 6):
                C[i][j] = C[j][i] = var(f'c{i+1}{j+1}', 1, 1000) if (i == j or (i < 3 and j < 3)) else var(f'c{i+1}{j+1}', -1000, 1000, deadzone=0.01)
        ec = am.ElasticConstants(Cij=sa(C))
        p1 = ufac(uc, unit)
        m = ec.model(unit=unit, crystal_system=crystal_system)
        uc = install('_w2'); p2 = ufac(uc, unit)
        new = am.ElasticConstants(model=m)
        c = new.Cij
        ob = []
        for i in range(6):
            for j in range(6):
                ob.append((f'Cij[{i}{j}] same physical value', phys_same(c[i, j], C[i][j], p1, p2)))
        return ob
    return fn


def cases(tier, seed=0):
    cs = []
    for shape in ((), (3,), (2, 2), (2, 3, 3)):
        for unit in ('angstrom', 'eV/angstrom^3', None) if shape in ((), (2, 2)) else ('GPa', None):
            cs.append(Case(f'value_{"x".join(map(str, shape)) or "scalar"}_{str(unit).replace("/", "_per_").replace("^", "")}', h_value(shape, unit), bind=BIND, reload=('atomman.unitconvert',), budget_s=150, timeout_ms=20000,
                           descr=f'uc.model / uc.value_unit, shape {shape}, unit {unit}, written and read under different working units'))
    cs.append(Case('value_3x2_transposed_GPa', h_value((3, 2), 'GPa', transposed=True), bind=BIND, reload=('atomman.unitconvert',), budget_s=150, timeout_ms=20000, descr='uc.model / uc.value_unit on a transposed (non C-contiguous) array'))
    for unit in ('angstrom', 'nm'):
        cs.append(Case(f'box_{unit}', h_box(unit), bind=BIND, reload=('atomman.unitconvert',), budget_s=150, timeout_ms=20000, descr=f'Box.model / Box(model=), length_unit {unit}'))
    for pu, bu in (('angstrom', 'angstrom'), ('scaled', 'nm'), ('nm', 'angstrom')):
        cs.append(Case(f'system_pos-{pu}_box-{bu}', h_system(pu, bu), bind=BIND, reload=('atomman.unitconvert',), budget_s=170, timeout_ms=20000, weight=2, descr=f'System.model / System(model=): positions in {pu}, box in {bu}'))
    cs.append(Case('system_dump_list_units', h_system('nm', 'angstrom', via_dump=True), bind=BIND + ['atomman.dump.system_model.dump'], reload=('atomman.unitconvert',), budget_s=170, timeout_ms=20000, weight=2, descr='system.dump(system_model) with prop_name=[...], unit=[...]'))
    if tier == 'thorough':
        cs.append(Case('elastic_GPa', h_elastic('GPa', 'triclinic'), bind=BIND, reload=('atomman.unitconvert',), budget_s=900, timeout_ms=60000, descr='ElasticConstants.model / ElasticConstants(model=), unit GPa'))
    return cs
