# C18 Gamma surface coordinate conversions are mutual inverses; Peierls-Nabarro energies match their formulas
import itertools, math
import numpy as np
from vlib.run import Case
from symx import core as sx
from symx.core import var, assume, eq, le, sa, band, bor, alleq, close

META = dict(
    explanation='GammaSurface.a12_to_pos/pos_to_a12/pos_to_xy/xy_to_pos/a12_to_xy/xy_to_a12 are executed on concrete instances (rectangular and oblique shift vectors, cubic and triclinic cells, default and explicit a1vect/a2vect/xvect) with symbolic query coordinates for one and many positions; E_gsf is cut before its interpolation (AST of the current source) and the fractional coordinates that reach the interpolation are compared, for a symbolic shift given as fractions, Cartesian position or plotting coordinates, with stored or alternate in-plane vectors, against the fractions of the stored vectors that describe that shift; SDVPN.disldensity/elastic_energy/stress_energy/surface_energy/nonlocal_energy/longrange_energy/total_energy are executed with a symbolic disregistry profile, symbolic K tensor, stress, alpha, beta on a concrete uniform grid (state constructed directly) and compared with independent double-loop evaluations of the documented formulas (total_energy also on a passed profile that differs from the stored one); pn_arctan_disregistry / pn_arctan_disldensity with symbolic centre, half-width and Burgers vector (arctan opaque): documented profile, normalisation 0..b, density = derivative of the normalised disregistry.',
    functions=['atomman/defect/GammaSurface.py:a12_to_pos,pos_to_a12,pos_to_xy,xy_to_pos,a12_to_xy,xy_to_a12,E_gsf (up to the interpolation)', 'atomman/defect/SDVPN.py:disldensity,elastic_energy,stress_energy,surface_energy,nonlocal_energy,longrange_energy,total_energy', 'atomman/defect/pn_arctan_disregistry.py', 'atomman/defect/pn_arctan_disldensity.py'],
    bounds=dict(quick='3 gamma-surface instances x all real query coordinates, 1, 2 and 4 positions; PN: grid of 5 points (spacing 0.4), disregistry 5x3 symbolic, symmetric K (6 symbolic entries), tau 3x3, two alpha, beta 3x3; finite-difference options on/off',
                thorough='grid of 7 points'),
    outside=['interpolation of the gamma surface (scipy RBF): reproduces-input, periodicity, model round trip', 'SDVPN.solve (scipy.optimize.minimize): never raises the energy, fixed ends', 'half-width clause', 'IEEE-754 rounding'],
    lemmas=[], cuts=['E_gsf cut before `if smooth:` (returns the fractions handed to the interpolation)', 'misfit_energy replaced by an opaque value in the total-energy case (interpolation is a SciPy boundary)', 'SDVPN object built with object.__new__ and its private fields set directly'],
    assumptions=[], trusted=[],
)
BIND = ['atomman.defect.GammaSurface', 'atomman.defect.SDVPN', 'atomman.core.Box']


def gsurf(kind):
    import atomman as am
    from atomman.defect import GammaSurface
    a1 = np.array([0, 0.5, 1.0, 0, 0.5, 1.0, 0, 0.5, 1.0]); a2 = np.array([0, 0, 0, 0.5, 0.5, 0.5, 1.0, 1.0, 1.0])
    E = 0.05 * (np.sin(np.pi * a1) ** 2 + np.sin(np.pi * a2) ** 2)
    if kind == 'rect_cubic':
        return GammaSurface(a1vect=[1, 0, 0], a2vect=[0, 1, 0], a1=a1, a2=a2, E_gsf=E, box=am.Box.cubic(3.2))
    if kind == 'oblique_cubic':
        return GammaSurface(a1vect=[0.5, -0.5, 0], a2vect=[0.5, 0, -0.5], a1=a1, a2=a2, E_gsf=E, box=am.Box.cubic(4.05))
    if kind == 'triclinic':
        return GammaSurface(a1vect=[1, 0, 0], a2vect=[0, 1, 1], a1=a1, a2=a2, E_gsf=E, box=am.Box(vects=[[3.0, 0, 0], [0.7, 2.5, 0], [-0.4, 0.3, 2.0]]))
    raise KeyError(kind)


def h_gamma(kind, npos, explicit):
    def fn():
        g = gsurf(kind)
        A1 = [var(f'a1_{k}', -5, 5) for k in range(npos)]; A2 = [var(f'a2_{k}', -5, 5) for k in range(npos)]
        kw = {}
        if explicit:
            kw = dict(a1vect=np.asarray(g.a2vect) * 1.0, a2vect=np.asarray(g.a1vect) + np.asarray(g.a2vect))     # another basis of the same plane
        Vb = np.array(g.box.vects, float)
        v1 = np.dot(kw.get('a1vect', g.a1vect), Vb); v2 = np.dot(kw.get('a2vect', g.a2vect), Vb)
        a1 = sa(A1) if npos > 1 else A1[0]; a2 = sa(A2) if npos > 1 else A2[0]
        ob = []
        pos = g.a12_to_pos(a1, a2, **kw)
        ob.append(('a12_to_pos shape', np.shape(pos) == (npos, 3)))
        if np.shape(pos) != (npos, 3): return ob
        for k in range(npos):
            ob.append((f'a12_to_pos[{k}] == a1 v1 + a2 v2', band(*[eq(pos[k, j], A1[k] * float(v1[j]) + A2[k] * float(v2[j])) for j in range(3)])))
        S = 100.0
        b1, b2 = g.pos_to_a12(pos if npos > 1 else pos[0], **kw)
        b1 = np.atleast_1d(b1); b2 = np.atleast_1d(b2)
        ob.append(('pos_to_a12(a12_to_pos(a)) == a', band(np.shape(b1) == (npos,), *[close(b1[k], A1[k], 1e-9, S) for k in range(npos)], *[close(b2[k], A2[k], 1e-9, S) for k in range(npos)])))
        xkw = dict(xvect=np.dot(kw['a1vect'], Vb)) if explicit else {}
        x, y = g.pos_to_xy(pos, **xkw)
        x = np.atleast_1d(x); y = np.atleast_1d(y)
        back = g.xy_to_pos(sa(list(x)), sa(list(y)), **xkw)
        ob.append(('xy_to_pos(pos_to_xy(p)) == p for in-plane positions', band(np.shape(back) == (npos, 3), *[close(back[k, j], pos[k, j], 1e-9, S) for k in range(npos) for j in range(3)])))
        # plotting coordinates are an isometry of the plane: x^2 + y^2 == |pos|^2
        ob.append(('pos_to_xy preserves lengths', band(*[close(x[k] * x[k] + y[k] * y[k], sum(pos[k, j] * pos[k, j] for j in range(3)), 1e-9, S * S) for k in range(npos)])))
        x2, y2 = g.a12_to_xy(a1, a2, **kw)
        x2 = np.atleast_1d(x2); y2 = np.atleast_1d(y2)
        ob.append(('a12_to_xy == pos_to_xy(a12_to_pos)', band(*[close(x2[k], x[k], 1e-9, S) for k in range(npos)], *[close(y2[k], y[k], 1e-9, S) for k in range(npos)])))
        c1, c2 = g.xy_to_a12(sa(list(x)), sa(list(y)), **kw)
        c1 = np.atleast_1d(c1); c2 = np.atleast_1d(c2)
        ob.append(('xy_to_a12(a12_to_xy(a)) == a', band(np.shape(c1) == (npos,), *[close(c1[k], A1[k], 1e-9, S) for k in range(npos)], *[close(c2[k], A2[k], 1e-9, S) for k in range(npos)])))
        return ob
    return fn


# ---------------------------------------------------------------- E_gsf dispatch: which fractional coordinates reach the interpolation
_EGSF = {}
def egsf_stage():
    """GammaSurface.E_gsf cut before its `if smooth:` statement (AST of the current source): returns the fractional
    coordinates (relative to the STORED vectors) that are handed to the interpolation"""
    import sys, ast, inspect
    mod = sys.modules['atomman.defect.GammaSurface']
    key = id(getattr(mod, 'np', None))
    if key in _EGSF: return _EGSF[key]
    tree = ast.parse(inspect.getsource(mod))
    cls = next(n for n in tree.body if isinstance(n, ast.ClassDef) and n.name == 'GammaSurface')
    f = next(n for n in cls.body if isinstance(n, ast.FunctionDef) and n.name == 'E_gsf')
    cut = next(i for i, st in enumerate(f.body) if isinstance(st, ast.If) and isinstance(st.test, ast.Name) and st.test.id == 'smooth')
    f.body = f.body[:cut] + [ast.parse('return a1, a2').body[0]]
    f.name = '_egsf_stage'; f.returns = None; f.decorator_list = []
    # private names (self.__hasdata) are mangled at class-compile time: keep the function inside a class of the same name
    cls.body = [f]; cls.bases = []; cls.decorator_list = []
    m = ast.Module(body=[cls], type_ignores=[]); ast.fix_missing_locations(m)
    ns = {}
    exec(compile(m, '/repo/atomman/defect/GammaSurface.py<translated>', 'exec'), mod.__dict__, ns)
    _EGSF[key] = ns['GammaSurface'].__dict__['_egsf_stage']
    return _EGSF[key]


def h_egsf(kind, how, alt):
    """the same shift given as fractions, as a Cartesian position or as plotting coordinates, with the stored or with
    alternate in-plane vectors, must reach the interpolation at the same fractions of the stored vectors"""
    def fn():
        g = gsurf(kind)
        stage = egsf_stage()
        Vb = np.array(g.box.vects, float)
        s1 = np.dot(g.a1vect, Vb); s2 = np.dot(g.a2vect, Vb)                   # stored vectors, Cartesian
        f1 = var('f1', 0.05, 0.45); f2 = var('f2', 0.05, 0.45)                 # the shift, in fractions of the stored vectors
        P = [f1 * float(s1[j]) + f2 * float(s2[j]) for j in range(3)]
        kw = {}
        if alt:
            kw = dict(a1vect=np.asarray(g.a2vect) * 1.0, a2vect=np.asarray(g.a1vect) + np.asarray(g.a2vect))     # another basis of the same plane
        if how == 'pos':
            a1, a2 = stage(g, pos=sa(P), smooth=True, **kw)
        elif how == 'xy':
            x, y = g.pos_to_xy(sa(P))
            a1, a2 = stage(g, x=x, y=y, smooth=True, **kw, **(dict(xvect=s1) if alt else {}))
        else:
            # fractions relative to the alternate vectors: P = b1 v1 + b2 v2
            v1 = np.dot(kw['a1vect'], Vb); v2 = np.dot(kw['a2vect'], Vb)
            M = np.linalg.inv(np.array([[np.dot(v1, v1), np.dot(v1, v2)], [np.dot(v1, v2), np.dot(v2, v2)]]))
            pv = [sum(P[j] * float(v1[j]) for j in range(3)), sum(P[j] * float(v2[j]) for j in range(3))]
            b1 = float(M[0, 0]) * pv[0] + float(M[0, 1]) * pv[1]; b2 = float(M[1, 0]) * pv[0] + float(M[1, 1]) * pv[1]
            a1, a2 = stage(g, a1=b1, a2=b2, smooth=True, **kw)
        a1 = np.atleast_1d(a1); a2 = np.atleast_1d(a2)
        return [(f'E_gsf({how}{", alternate a1vect/a2vect" if alt else ""}) interpolates at the fractions of the stored vectors that describe the same shift', band(np.shape(a1) == (1,), close(a1[0], f1, 1e-9, 10.0), close(a2[0], f2, 1e-9, 10.0)))]
    return fn


def h_arctan(center_kind):
    """pn_arctan_disregistry / pn_arctan_disldensity with symbolic centre, half-width and Burgers vector on a concrete grid
    (arctan opaque): the disregistry is the documented arctangent profile, normalised from 0 to b; the density is its
    derivative with the same normalisation (so that it integrates to one Burgers vector over the range)"""
    def fn():
        from atomman.defect import pn_arctan_disregistry, pn_arctan_disldensity
        x = np.linspace(-4.0, 6.0, 6)
        c = var('center', 0.5, 2.0) if center_kind == 'symbolic' else 0.0      # away from 0: a model with centre 0 would hide a centre-handling error in the replay
        w = var('halfwidth', 0.5, 3.0)
        b = [var('bx', 1.0, 4.0), 0.0, var('bz', -2.0, 2.0)]
        S = 100.0
        ob = []
        at = [sx.npshim.arctan((float(xi) - c) / w) if sx.symbolic_mode() else math.atan((float(xi) - c) / w) for xi in x]
        xr, d0 = pn_arctan_disregistry(x=x, burgers=sa(b), center=c, halfwidth=w, normalize=False)
        ob.append(('disregistry (normalize=False) == arctan((x-c)/w) b/pi + b/2', band(np.shape(d0) == (len(x), 3), *[close(d0[i][k] * math.pi, at[i] * b[k] + b[k] * (math.pi / 2), 1e-9, S) for i in range(len(x)) for k in range(3)])))
        xr, d1 = pn_arctan_disregistry(x=x, burgers=sa(b), center=c, halfwidth=w, normalize=True)
        span = at[-1] - at[0]
        ob.append(('disregistry (normalize=True) runs from 0 to exactly b', band(*[close(d1[0][k], 0, 1e-9, S) for k in range(3)], *[close(d1[-1][k], b[k], 1e-9, S) for k in range(3)])))
        ob.append(('normalised disregistry == (arctan_i - arctan_0)/(arctan_N - arctan_0) b', band(*[close(d1[i][k] * span, (at[i] - at[0]) * b[k], 1e-9, S) for i in range(len(x)) for k in range(3)])))
        xr, r0 = pn_arctan_disldensity(x=x, burgers=sa(b), center=c, halfwidth=w, normalize=False)
        ob.append(('density (normalize=False) == w/((x-c)^2+w^2) b/pi', band(*[close(r0[i][k] * math.pi * ((float(x[i]) - c) ** 2 + w * w), w * b[k], 1e-9, S) for i in range(len(x)) for k in range(3)])))
        xr, r1 = pn_arctan_disldensity(x=x, burgers=sa(b), center=c, halfwidth=w, normalize=True)
        # derivative of the normalised disregistry: w/((x-c)^2+w^2) b / (arctan_N - arctan_0)
        ob.append(('density (normalize=True) is the derivative of the normalised 0..b disregistry (integrates to one Burgers vector over the range)',
                   band(*[close(r1[i][k] * span * ((float(x[i]) - c) ** 2 + w * w), w * b[k], 1e-9, S) for i in range(len(x)) for k in range(3)])))
        return ob
    return fn


def mk_pn(n, cdiff, full, symbolicK=True):
    from atomman.defect import SDVPN
    pn = object.__new__(SDVPN)
    x = np.arange(n) * 0.4 - 0.8
    D = [[var(f'd{i}{c}', -3, 3) for c in range(3)] for i in range(n)]
    Kv = {}
    K = [[None] * 3 for _ in range(3)]
    for i in range(3):
        for j in range(i, 3):
            K[i][j] = K[j][i] = var(f'K{i}{j}', -50, 50) if symbolicK else float([[30, 2, 1], [2, 28, 3], [1, 3, 20]][i][j])
    tau = [[var(f'tau{i}{j}', -2, 2) for j in range(3)] for i in range(3)]
    al = (var('alpha1', -2, 2), var('alpha2', -2, 2)); be = [[var(f'beta{i}{j}', -2, 2) for j in range(3)] for i in range(3)]
    b = [var(f'b{c}', -3, 3) for c in range(3)]
    P = '_SDVPN__'
    setattr(pn, P + 'x', x); setattr(pn, P + 'disregistry', sa(D)); setattr(pn, P + 'K_tensor', sa(K)); setattr(pn, P + 'tau', sa(tau))
    setattr(pn, P + 'alpha', al); setattr(pn, P + 'beta', sa(be)); setattr(pn, P + 'burgers', sa(b)); setattr(pn, P + 'cutofflongrange', 1000.0)
    setattr(pn, P + 'cdiffelastic', cdiff); setattr(pn, P + 'cdiffstress', cdiff); setattr(pn, P + 'cdiffsurface', cdiff); setattr(pn, P + 'fullstress', full)
    setattr(pn, P + 'transform', np.eye(3))
    return pn, x, D, K, tau, al, be, b


def rho_ref(x, D, cdiff):
    n = len(x)
    if cdiff: return [[(D[i + 1][c] - D[i - 1][c]) / float(x[i + 1] - x[i - 1]) for c in range(3)] for i in range(1, n - 1)], list(x[1:-1])
    return [[(D[i + 1][c] - D[i][c]) / float(x[i + 1] - x[i]) for c in range(3)] for i in range(n - 1)], list(x[1:])


def chi(i, j, dx):
    def psi(a, b):
        return 0.0 if a == b else 0.5 * (a - b) ** 2 * dx ** 2 * math.log(abs(a - b) * dx)
    return 1.5 * dx ** 2 + psi(i - 1, j - 1) + psi(i, j) - psi(i, j - 1) - psi(j, i - 1)


def h_pn(n, cdiff, full):
    def fn():
        pn, x, D, K, tau, al, be, b = mk_pn(n, cdiff, full)
        dx = float(x[1] - x[0])
        S = 1e6
        ob = []
        nx, rho = pn.disldensity(cdiff=cdiff)
        R, X = rho_ref(x, D, cdiff)
        ob.append(('disldensity == finite difference of the disregistry', band(np.shape(rho) == (len(R), 3), *[eq(rho[i, c], R[i][c]) for i in range(len(R)) for c in range(3)], np.allclose(np.asarray(nx, float), X))))
        m = len(R)
        # elastic: 1/(4 pi) sum_ij chi(i,j) rho_i . K . rho_j
        ref = 0
        for i in range(m):
            for j in range(m):
                ref = ref + chi(i, j, dx) * sum(R[i][a] * K[a][c] * R[j][c] for a in range(3) for c in range(3))
        ob.append(('elastic_energy == (1/4pi) sum_ij chi_ij rho_i.K.rho_j', close(pn.elastic_energy() * (4 * math.pi), ref, 1e-9, S)))
        # symmetric quadratic form: invariant under a rigid shift of the disregistry
        sh = [var(f'shift{c}', -3, 3) for c in range(3)]
        D2 = sa([[D[i][c] + sh[c] for c in range(3)] for i in range(n)])
        ob.append(('elastic_energy unchanged by a rigid shift of the disregistry', close(pn.elastic_energy(x, D2), pn.elastic_energy(), 1e-9, S)))
        # stress term
        stress_ok = True
        if full and cdiff:
            try:
                pn.stress_energy()
            except ValueError:
                stress_ok = False
            ob.append(('stress_energy is defined for fullstress=True with cdiffstress=True', stress_ok))
        elif full:
            ref = 0
            for i in range(m):
                ref = ref + (float(x[1:][i]) ** 2 - float(x[:-1][i]) ** 2) * sum(R[i][c] * tau[1][c] for c in range(3))
            ob.append(('stress_energy (full) == -1/2 sum (x_i+1^2 - x_i^2) rho_i . tau_y', close(pn.stress_energy(), -0.5 * ref, 1e-9, S)))
        else:
            ref = 0
            for i in range(n - 1):
                ref = ref + sum(-tau[1][c] * (D[i][c] + D[i + 1][c]) * dx for c in range(3))
            ob.append(('stress_energy == 1/2 sum tau_y . (delta_i + delta_i+1) dx', close(pn.stress_energy(), -0.5 * ref, 1e-9, S)))
        # surface term: 1/4 sum_i sum_ab beta_ab rho_i,b^2 dx   (np.inner(rho^2 dx, beta) summed over everything)
        ref = 0
        for i in range(m):
            for a_ in range(3):
                for c in range(3):
                    ref = ref + be[a_][c] * R[i][c] * R[i][c] * dx
        ob.append(('surface_energy == 1/4 sum beta . rho^2 dx', close(pn.surface_energy() * 4, ref, 1e-9, S)))
        # nonlocal term
        ref = 0
        for num, a_ in enumerate(al):
            mm = num + 1
            for i in range(mm, n - mm):
                for c in range(3):
                    ref = ref + a_ * D[i][c] * (D[i][c] - 0.5 * (D[i + mm][c] + D[i - mm][c])) * dx
        ob.append(('nonlocal_energy == sum_m alpha_m sum_i delta_i.(delta_i - (delta_i+m + delta_i-m)/2) dx', close(pn.nonlocal_energy(), ref, 1e-9, S)))
        ob.append(('longrange_energy == b.K.b ln(L)/(2 pi)', close(pn.longrange_energy() * (2 * math.pi), sum(b[a_] * K[a_][c] * b[c] for a_ in range(3) for c in range(3)) * math.log(1000.0), 1e-9, S)))
        # total: sum of the documented terms (misfit is an opaque value: cut)
        mis = var('misfit', -10, 10)
        pn.misfit_energy = lambda x=None, d=None: mis
        if not stress_ok: return ob
        tot = pn.total_energy()
        ob.append(('total_energy == misfit + elastic + longrange + stress + nonlocal + surface', close(tot, mis + pn.elastic_energy() + pn.longrange_energy() + pn.stress_energy() + pn.nonlocal_energy() + pn.surface_energy(), 1e-9, S)))
        # ... also for a profile that is passed in and differs from the stored one (every term evaluated on the PASSED profile)
        D2 = [[D[i][c] * 0.5 + (0.1 * (i + 1) if c == 0 else 0.0) for c in range(3)] for i in range(n)]
        d2 = sa(D2)
        tot2 = pn.total_energy(x, d2)
        ob.append(('total_energy(x, profile) == sum of the terms evaluated on that profile, not on the stored one', close(tot2, mis + pn.elastic_energy(x, d2) + pn.longrange_energy() + pn.stress_energy(x, d2) + pn.nonlocal_energy(x, d2) + pn.surface_energy(x, d2), 1e-9, S)))
        return ob
    return fn


def cases(tier, seed=0):
    cs = []
    for kind in ('rect_cubic', 'oblique_cubic', 'triclinic'):
        for npos in (1, 2, 4):
            for explicit in (False, True):
                if explicit and (npos == 4 or tier == 'quick' and kind == 'rect_cubic'): continue
                cs.append(Case(f'gamma_{kind}_{npos}{"_explicit" if explicit else ""}', h_gamma(kind, npos, explicit), bind=BIND, budget_s=120, timeout_ms=15000,
                               descr=f'gamma surface {kind}: conversions on {npos} position(s){", explicit a1vect/a2vect/xvect" if explicit else ""}'))
    for kind in ('rect_cubic', 'triclinic') if tier == 'quick' else ('rect_cubic', 'oblique_cubic', 'triclinic'):
        for how, alt in (('pos', False), ('pos', True), ('xy', False), ('xy', True), ('a12', True)):
            cs.append(Case(f'egsf_{kind}_{how}{"_alt" if alt else ""}', h_egsf(kind, how, alt), bind=BIND, budget_s=120, timeout_ms=15000,
                           descr=f'E_gsf dispatch ({kind}): shift given as {how}{" with alternate vectors" if alt else ""} reaches the interpolation at the right fractions'))
    for ck in ('zero', 'symbolic'):
        cs.append(Case(f'pn_arctan_{ck}_center', h_arctan(ck), bind=BIND + ['atomman.defect.pn_arctan_disregistry', 'atomman.defect.pn_arctan_disldensity'], budget_s=170, timeout_ms=30000, descr=f'arctangent disregistry / density profiles, centre {ck}, symbolic half-width and Burgers vector'))
    n = 5 if tier == 'quick' else 7
    for cdiff in (False, True):
        for full in (True, False):
            cs.append(Case(f'pn_energies_cdiff{int(cdiff)}_full{int(full)}', h_pn(n, cdiff, full), bind=BIND, budget_s=170, timeout_ms=30000, weight=3,
                           descr=f'Peierls-Nabarro energy terms vs documented formulas, {n} grid points, cdiff={cdiff}, fullstress={full}'))
    return cs
