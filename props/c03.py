# C03 Neighbor list lists exactly the pairs closer than the cutoff
import itertools, math, os, tempfile
import numpy as np
from vlib.run import Case
from symx import core as sx, kernels
from symx.core import var, assume, eq, le, sa, band, bor, bnot

META = dict(
    explanation='nlist.pyx (re-translated from source; its bin/ghost/half-stencil sweep executed on symbolic atom coordinates) and NeighborList are executed for 2-3 atoms in a table of concrete (cell, cutoff, periodicity) entries. Bin indices, ghost membership and the cutoff test fork, so the solver derives the partition of configuration space that the code\'s own branching induces and decides the list on each whole region against the C02 periodic distance (dmag2_c executed symbolically).',
    functions=['atomman/core/nlist.pyx:nlist,unique_rows2', 'atomman/core/dmag.pyx:dmag2_c', 'atomman/core/NeighborList.py:NeighborList.__init__/build/__getitem__/coord/dump/load',
               'atomman/core/System.py:System.__init__', 'atomman/core/Atoms.py:Atoms.__init__'],
    bounds=dict(quick='N=2 atoms, two relative coordinates of both atoms symbolic (the third fixed), 12 table entries (orthogonal/tilted, unequal bin counts per direction, origin, cutoff below/near/above the cell widths, pbc TTF/TFF/FFF), configuration space cut into axis-aligned sub-boxes; quick explores the face-adjacent sub-boxes within a time budget per sub-box (unexplored regions are counted and reported)',
                thorough='the whole cell of every entry as 16 sub-boxes (2x2 per atom) with 300 s per sub-box (unfinished work-lists are reported as remaining); N=3 for two entries incl. storage sizes (1,1),(2,1)'),
    outside=['N > 3 atoms', 'more than 40 atoms per bin (bin growth) and neighbour-row growth beyond the translator-validation replay', 'IEEE-754 rounding at bin edges (np.arange/digitize are executed on exact reals)'],
    lemmas=[], cuts=[],
    assumptions=['atoms inside the cell (relative coordinates in [0,1])', 'Cython integer types behave as Python ints within the bounds'],
    trusted=['pyx2py translator (validated each run against the freshly compiled extension on seeded random systems, including a 45-atoms-in-one-bin and a row-growth configuration)'],
)
BIND = ['atomman.core.Box', 'atomman.core.System', 'atomman.core.Atoms', 'atomman.core.NeighborList']
KER = ['nlist', 'dmag']

# (name, box kwargs, cutoff, pbc, fixed z of the atoms)
ENTRIES = {
    'E1': (dict(lx=1.912, ly=1.923, lz=3.43), 0.645, (True, True, False), (1.715, 1.715)),
    'E2': (dict(lx=2.0, ly=1.7, lz=3.0), 0.9, (True, True, False), (1.5, 1.5)),
    'E3': (dict(lx=2.0, ly=2.0, lz=3.0, xy=0.5), 0.7, (True, True, False), (1.5, 1.7)),
    'E4': (dict(lx=2.2, ly=2.1, lz=3.0, origin=[0.3, -0.2, 0.1]), 0.8, (True, False, False), (1.6, 1.6)),
    'E5': (dict(lx=1.5, ly=1.6, lz=3.0), 1.7, (True, True, False), (1.5, 1.5)),
    'E6': (dict(lx=2.0, ly=2.0, lz=3.0), 0.9, (False, False, False), (1.5, 2.0)),
    # entries with the c direction periodic: the third tuple element names the two symbolic relative coordinates
    'E7': (dict(lx=2.0, ly=2.1, lz=1.9), 0.6, (True, False, True), (1.0, 1.2), 'xz'),
    'E8': (dict(lx=2.2, ly=1.8, lz=2.0, yz=0.4), 0.65, (False, True, True), (1.0, 1.3), 'yz'),
    'E9': (dict(lx=2.0, ly=2.0, lz=1.7, origin=[-0.5, 0.2, 0.3]), 0.7, (False, False, True), (0.9, 1.1), 'xz'),
    'E10': (dict(lx=1.9, ly=1.8, lz=2.0), 0.6, (True, True, True), (0.9, 1.0), 'yz'),
    # more bins along b than along a, and along c than along b (the bin counts of the three directions must not be interchangeable)
    'E11': (dict(lx=1.4, ly=3.1, lz=3.0), 0.65, (True, True, False), (1.5, 1.5)),
    'E12': (dict(lx=3.2, ly=1.5, lz=4.4), 0.7, (False, True, True), (1.0, 1.3), 'yz'),
}


def wellformed(lists, coord, n):
    ok = True
    for i in range(n):
        l = [int(v) for v in lists[i]]
        ok = ok and l == sorted(l) and len(set(l)) == len(l) and i not in l and int(coord[i]) == len(l) and all(0 <= j < n for j in l)
        ok = ok and all(i in [int(v) for v in lists[j]] for j in l)
    return ok


def h_region(ename, sub, natoms=2, sizes=(20, 10), check_io=False):
    """sub: dict var -> (lo_frac, hi_frac) of the relative coordinate range explored by this case"""
    bk, rc, pbc, zs = ENTRIES[ename][:4]
    axes = ENTRIES[ename][4] if len(ENTRIES[ename]) > 4 else 'xy'
    def fn():
        import atomman as am
        box = am.Box(**bk)
        V = np.array(box.vects, dtype=float); O = np.array(box.origin, dtype=float)
        pos = []
        for k in range(natoms):
            # relative coordinates (s_x, s_y) symbolic inside the sub-box; Cartesian position by the concrete cell
            # s{k}x / s{k}y name the first / second symbolic relative coordinate (axes say which cell directions they are)
            s1 = var(f's{k}x', *sub.get(f's{k}x', (0, 1))); s2 = var(f's{k}y', *sub.get(f's{k}y', (0, 1)))
            fixed = zs[k % len(zs)]
            rel = {}
            ax = ['xyz'.index(c) for c in axes]
            rel[ax[0]] = s1; rel[ax[1]] = s2
            third = [i for i in range(3) if i not in ax][0]
            rel[third] = fixed / float(np.linalg.norm(V[third]))          # fixed relative coordinate along the remaining direction
            p = [O[j] + rel[0] * float(V[0, j]) + rel[1] * float(V[1, j]) + rel[2] * float(V[2, j]) for j in range(3)]
            pos.append(p)
        P = sa(pos)
        s = am.System(atoms=am.Atoms(pos=P), box=box, pbc=pbc)
        nl = am.NeighborList(system=s, cutoff=rc, initialsize=sizes[0], deltasize=sizes[1])
        lists = [list(nl[i]) for i in range(natoms)]
        ob = [('lists symmetric, ascending, duplicate-free, no self entry, coord == length', wellformed(lists, nl.coord, natoms))]
        dm = kernels.load_sym('dmag') if sx.symbolic_mode() else None
        for i in range(natoms):
            for j in range(i + 1, natoms):
                d2 = float(am.dmag(P[i], P[j], box, pbc)[0]) ** 2 if not sx.symbolic_mode() else _d2(dm, P, i, j, V, pbc)
                listed = j in [int(v) for v in lists[i]]
                if sx.symbolic_mode():
                    ob.append((f'pair ({i},{j}) {"listed => distance < cutoff" if listed else "not listed => distance >= cutoff"}',
                               (d2 < rc * rc) if listed else bnot(d2 < rc * rc)))
                else:
                    if abs(d2 - rc * rc) < 1e-9: continue
                    ob.append((f'pair ({i},{j}) {"listed => distance < cutoff" if listed else "not listed => distance >= cutoff"}', (d2 < rc * rc) == listed))
        if check_io:
            fd, fn_ = tempfile.mkstemp(prefix='verif_nl_'); os.close(fd)
            try:
                open(fn_, 'w').write('# left over from an earlier run\n0 1 2\n')
                nl.dump(fn_)                 # the target exists and is not empty: it is replaced, not appended to
                nl2 = am.NeighborList(model=fn_)
                same = len(nl2) == natoms and all([int(v) for v in nl2[i]] == [int(v) for v in lists[i]] for i in range(natoms)) and \
                    [int(c) for c in nl2.coord] == [int(c) for c in nl.coord]
            finally:
                os.unlink(fn_)
            ob.append(('dump -> load returns the same lists', same))
        return ob
    return fn


def _d2(dm, P, i, j, V, pbc):
    r = dm.dmag2_c(P[i:i + 1], P[j:j + 1], V, pbc[0], pbc[1], pbc[2])
    return r[0]


def tv_nlist(seed, n=120):
    """translator validation + concrete properties that need many atoms (bin growth, row growth, storage sizes)"""
    def fn():
        import atomman as am
        rng = np.random.default_rng(seed)
        nt = kernels.load_sym('nlist', real_numpy=True); nc = kernels.load_conc('nlist')
        bad = 0; sizes_bad = 0
        for k in range(n):
            L = rng.uniform(1.5, 4, 3); t = rng.uniform(-1, 1, 3) * (k % 2)
            box = am.Box(lx=L[0], ly=L[1], lz=L[2], xy=t[0], xz=t[1], yz=t[2], origin=rng.uniform(-2, 2, 3) * (k % 3 == 0))
            na = int(rng.integers(1, 30))
            sp = rng.uniform(0, 1, (na, 3))
            if k % 7 == 0: sp[: na // 2] = sp[0] + rng.uniform(0, 0.02, (na // 2, 3))     # clustered
            if k % 11 == 0: sp[:, 0] = np.round(sp[:, 0])                                   # atoms on faces
            s = am.System(atoms=am.Atoms(pos=sp), box=box, pbc=[bool(x) for x in rng.integers(0, 2, 3)], scale=True)
            rc = float(rng.uniform(0.3, 1.2) * L.min())
            a = np.asarray(nt.nlist(s, rc)); b = np.asarray(nc.nlist(s, rc))
            la = [list(a[i, 1:a[i, 0] + 1]) for i in range(na)]; lb = [list(b[i, 1:b[i, 0] + 1]) for i in range(na)]
            if la != lb: bad += 1
            c = np.asarray(nc.nlist(s, rc, initialsize=1, deltasize=1)); d = np.asarray(nc.nlist(s, rc, initialsize=2, deltasize=3))
            if [list(c[i, 1:c[i, 0] + 1]) for i in range(na)] != lb or [list(d[i, 1:d[i, 0] + 1]) for i in range(na)] != lb: sizes_bad += 1
        # 45 atoms in one bin (bin growth) against brute force
        box = am.Box.cubic(3.0); sp = np.full((45, 3), 0.5) + rng.uniform(0, 0.01, (45, 3))
        s = am.System(atoms=am.Atoms(pos=sp), box=box, pbc=(True, True, True), scale=True)
        b = np.asarray(nc.nlist(s, 0.5)); a = np.asarray(nt.nlist(s, 0.5))
        dense_ok = all(b[i, 0] == 44 for i in range(45)) and (a[:, :45] == b[:, :45]).all()
        return [(f'translated nlist agrees with the compiled extension on {n} seeded random systems', bad == 0),
                ('result independent of (initialsize, deltasize) in {(20,10),(1,1),(2,3)} on the same systems (compiled extension)', sizes_bad == 0),
                ('45 atoms in one bin: every atom lists the 44 others (bin growth)', bool(dense_ok))]
    return fn


def grid(nx, ny):
    xs = [(i / nx, (i + 1) / nx) for i in range(nx)]; ys = [(i / ny, (i + 1) / ny) for i in range(ny)]
    return xs, ys


def cases(tier, seed=0):
    cs = [Case('translator_validation', tv_nlist(seed), kernels=KER, concrete_only=True, budget_s=170,
               descr='pyx2py(nlist.pyx) vs extension compiled from the same source; storage sizes; bin growth')]
    B = 110 if tier == 'quick' else 300
    def add(ename, sub, tag, **kw):
        cs.append(Case(f'{ename}_{tag}', h_region(ename, sub, **kw), bind=BIND, kernels=KER, maxcases=32, budget_s=B, max_paths=100000,
                       timeout_ms=10000, descr=f'entry {ename} {ENTRIES[ename][0]} cutoff {ENTRIES[ename][1]} pbc {ENTRIES[ename][2]}: sub-box {sub}', expect_paths=2))
    if tier == 'quick':
        # face-adjacent sub-boxes (where ghost-only bins arise): atom 0 near the lower y face, atom 1 near the upper y face
        xs, _ = grid(2, 1)
        for a, xa in enumerate(xs):
            for b, xb in enumerate(xs):
                add('E1', {'s0x': xa, 's0y': (0.0, 0.26), 's1x': xb, 's1y': (0.95, 1.0)}, f'ylow_yhigh_{a}{b}', check_io=(a == b == 0))
        add('E2', {'s0x': (0, 0.3), 's0y': (0, 0.3), 's1x': (0.7, 1.0), 's1y': (0.7, 1.0)}, 'corner')
        add('E3', {'s0x': (0, 0.3), 's0y': (0, 0.25), 's1x': (0.6, 1.0), 's1y': (0.8, 1.0)}, 'corner')
        add('E4', {'s0x': (0, 0.25), 's0y': (0.3, 0.7), 's1x': (0.8, 1.0), 's1y': (0.3, 0.7)}, 'xfaces')
        add('E5', {'s0x': (0, 0.5), 's0y': (0, 0.5), 's1x': (0.5, 1.0), 's1y': (0.5, 1.0)}, 'half')
        add('E6', {'s0x': (0.2, 0.6), 's0y': (0.2, 0.6), 's1x': (0.4, 0.9), 's1y': (0.4, 0.9)}, 'interior')
        add('E7', {'s0x': (0.2, 0.7), 's0y': (0.0, 0.2), 's1x': (0.2, 0.7), 's1y': (0.8, 1.0)}, 'cfaces')
        add('E8', {'s0x': (0.0, 0.3), 's0y': (0.0, 0.25), 's1x': (0.7, 1.0), 's1y': (0.75, 1.0)}, 'corner')
        add('E9', {'s0x': (0.3, 0.7), 's0y': (0.0, 0.25), 's1x': (0.3, 0.7), 's1y': (0.75, 1.0)}, 'cfaces')
        add('E10', {'s0x': (0.0, 0.25), 's0y': (0.0, 0.25), 's1x': (0.75, 1.0), 's1y': (0.75, 1.0)}, 'corner')
        add('E11', {'s0x': (0.2, 0.8), 's0y': (0.35, 0.75), 's1x': (0.2, 0.8), 's1y': (0.35, 0.75)}, 'ylayers')
        add('E11', {'s0x': (0.2, 0.8), 's0y': (0.6, 1.0), 's1x': (0.2, 0.8), 's1y': (0.6, 1.0)}, 'ytop')
        add('E12', {'s0x': (0.2, 0.8), 's0y': (0.3, 0.7), 's1x': (0.2, 0.8), 's1y': (0.3, 0.7)}, 'zlayers')
        rng = np.random.default_rng(seed + 7)
        for k in range(4):
            e = ['E1', 'E2', 'E3', 'E5'][k]
            lo = rng.uniform(0, 0.75, 4)
            add(e, {'s0x': (float(lo[0]), float(lo[0] + 0.25)), 's0y': (float(lo[1]), float(lo[1] + 0.25)),
                    's1x': (float(lo[2]), float(lo[2] + 0.25)), 's1y': (float(lo[3]), float(lo[3] + 0.25))}, f'seeded{k}')
    else:
        for e in ENTRIES:
            xs, ys = grid(2, 2)        # 16 sub-boxes per entry covering the whole cell (sized for ~45 min on 16 cores; unfinished work-lists are reported)
            for (a, xa), (b, ya), (c, xb), (d, yb) in itertools.product(enumerate(xs), enumerate(ys), enumerate(xs), enumerate(ys)):
                add(e, {'s0x': xa, 's0y': ya, 's1x': xb, 's1y': yb}, f'g{a}{b}{c}{d}', check_io=(a == b == c == d == 0))
        for e in ('E2', 'E6'):
            for sz in ((1, 1), (2, 1)):
                cs.append(Case(f'{e}_three_atoms_{sz[0]}_{sz[1]}', h_region(e, {'s0x': (0, 0.4), 's0y': (0, 0.4), 's1x': (0.3, 0.7), 's1y': (0.3, 0.7), 's2x': (0.6, 1), 's2y': (0.6, 1)}, natoms=3, sizes=sz),
                               bind=BIND, kernels=KER, maxcases=32, budget_s=B, max_paths=100000, timeout_ms=10000, descr=f'{e}: three atoms, storage sizes {sz}'))
    return cs
