# C20 Path integrators have their nominal order; numerical gradient second order; climbing force
import itertools, math
import numpy as np
from vlib.run import Case
from symx import core as sx
from symx.core import var, assume, eq, sa, band

META = dict(
    explanation='atomman.mep.integrator.euler/rungekutta and gradient.central_difference are executed on symbolic A (n x n), y, h and on polynomial test functions with symbolic coefficients; ISMPath.step is executed up to the integrator call (cut) with a symbolic linear gradient field.',
    functions=['atomman/mep/integrator/euler.py:euler', 'atomman/mep/integrator/rungekutta.py:rungekutta',
               'atomman/mep/gradient/central_difference.py:central_difference', 'atomman/mep/ISMPath.py:ISMPath.step (rate, climbrate closures)',
               'atomman/mep/BasePath.py:BasePath.grad_energy', 'atomman/mep/ISMPath.py:ISMPath.relax (loop control; step() cut)'],
    bounds=dict(quick='n = 1..4 (A n x n, y n, h: all reals); rate function with and without **kwargs; polynomials of total degree <= 4 in 1-2 variables, all coefficients, points and steps != 0 real; climbing: 3 images x 2 dims, symbolic gradient field and unit tangents',
                thorough='n = 1..6; polynomials degree <= 4 in 1-3 variables incl. leading shapes (2,n)'),
    outside=['ISMPath.relax convergence, ends reaching minima, saddle energy (iterated SciPy CubicSpline re-spacing: no bounded symbolic formulation)',
             'IEEE-754 rounding (real arithmetic is decided)'],
    lemmas=['L4 Taylor coefficients of exp: the reference polynomial sum_{k<=p} (hA)^k y / k! is built by the harness'],
    cuts=['ISMPath.integratorfxn replaced by a capturing stub (the spline re-spacing tail is outside the claim)', 'ISMPath.step replaced by a stub moving one image by a symbolic displacement (relax loop-control cases)'],
    assumptions=['step sizes non-zero', 'unit tangents (|tau| = 1) for the climbing clause'],
    trusted=[],
)
BIND = ['atomman.mep.integrator.euler', 'atomman.mep.integrator.rungekutta', 'atomman.mep.gradient.central_difference',
        'atomman.mep.ISMPath', 'atomman.mep.BasePath']


def _Ayh(n):
    A = sa([[var(f'a{i}{j}') for j in range(n)] for i in range(n)])
    y = sa([var(f'y{i}') for i in range(n)]); h = var('h')
    return A, y, h


def _taylor(A, y, h, order):
    ref = y; t = y; fact = 1
    for k in range(1, order + 1):
        t = h * np.dot(A, t); fact *= k; ref = ref + t / fact
    return ref


def h_euler(n, kw):
    def fn():
        from atomman.mep.integrator import euler
        A, y, h = _Ayh(n)
        if kw:
            r = euler(lambda c, M=None: np.dot(M, c), y, h, M=A)
        else:
            r = euler(lambda c: np.dot(A, c), y, h)
        ref = _taylor(A, y, h, 1)
        ob = [(f'euler[{i}] == ((I + hA) y)[{i}]', eq(r[i], ref[i])) for i in range(n)]
        # one-step error is exactly the second Taylor term plus higher: r - T2 = -(hA)^2 y / 2
        t2 = _taylor(A, y, h, 2)
        hA2y = h * np.dot(A, h * np.dot(A, y))
        ob += [(f'euler[{i}] error to T2 is the h^2 term', eq(t2[i] - r[i], hA2y[i] / 2)) for i in range(n)]
        return ob
    return fn


def h_rk(n, kw):
    def fn():
        from atomman.mep.integrator import rungekutta
        A, y, h = _Ayh(n)
        if kw:
            r = rungekutta(lambda c, M=None: np.dot(M, c), y, h, M=A)
        else:
            r = rungekutta(lambda c: np.dot(A, c), y, h)
        ref = _taylor(A, y, h, 4)
        return [(f'rk[{i}] == (sum_k<=4 (hA)^k/k! y)[{i}]', eq(r[i], ref[i])) for i in range(n)]
    return fn


def h_int_coords(which):
    """integer-typed coordinates (list of ints / integer array): the step is not truncated.  Concrete sample: a dtype
    question has no symbolic dimension (a symbolic step cannot be stored in an integer array at all)"""
    def fn():
        from atomman.mep.integrator import euler, rungekutta
        A = np.array([[0.3, -1.2], [0.7, 0.4]]); h = 0.05
        ob = []
        for tag, y in (('integer ndarray', np.array([2, -3])), ('list of ints', [2, -3])):
            f = euler if which == 'euler' else rungekutta
            r = np.asarray(f(lambda c: np.dot(A, c), y, h), dtype=float)
            ref = np.asarray(_taylor(A, np.array([2.0, -3.0]), h, 1 if which == 'euler' else 4), dtype=float)
            ob.append((f'{which} on a {tag} equals the Taylor polynomial of the float-valued problem (no truncation to integers)', bool(r.shape == (2,) and np.allclose(r, ref, rtol=1e-12, atol=1e-12))))
        return ob
    return fn


def h_rk_scalar():
    def fn():
        from atomman.mep.integrator import rungekutta, euler
        a, y, h = var('a'), var('y'), var('h')
        r = rungekutta(lambda c: a * c, y, h)
        e = euler(lambda c: a * c, y, h)
        x = h * a
        return [('rk scalar == y(1+x+x^2/2+x^3/6+x^4/24)', eq(r, y * (1 + x + x * x / 2 + x * x * x / 6 + x * x * x * x / 24))),
                ('euler scalar == y(1+x)', eq(e, y * (1 + x)))]
    return fn


def _monos(nv, deg):
    return [e for e in itertools.product(range(deg + 1), repeat=nv) if sum(e) <= deg]


def h_cdiff(nv, deg, lead):
    """f = sum c_e x^e with symbolic c; (f(x+d e_i)-f(x-d e_i))/(2d) - df/dx_i == d^2/6 d3f/dx_i^3 + d^4/120 d5f/dx_i^5"""
    monos = _monos(nv, deg)
    def fn():
        from atomman.mep.gradient import central_difference
        cs = {e: var('c' + ''.join(map(str, e))) for e in monos}
        d = var('shift'); assume(d != 0)
        npts = lead if lead else 1
        pts = [[var(f'x{p}_{i}') for i in range(nv)] for p in range(npts)]
        X = sa(pts if lead else pts[0])
        def f(x):
            x = np.asarray(x)
            tot = 0
            for e, c in cs.items():
                t = c
                for i, k in enumerate(e):
                    for _ in range(k): t = t * x[..., i]
                tot = tot + t
            return tot
        def dmono(e, x, i, order):
            # d^order/dx_i^order of x^e
            k = e[i]
            if k < order: return 0
            coef = math.factorial(k) // math.factorial(k - order)
            t = coef
            for j, kk in enumerate(e):
                p = kk - order if j == i else kk
                for _ in range(p): t = t * x[j]
            return t
        g = central_difference(f, X, d)
        ob = []
        if np.shape(g) != np.shape(X):
            return [('gradient has the shape of coord', False)]
        for p in range(npts):
            x = pts[p]
            for i in range(nv):
                d1 = sum(cs[e] * dmono(e, x, i, 1) for e in monos)
                d3 = sum(cs[e] * dmono(e, x, i, 3) for e in monos)
                gi = g[p, i] if lead else g[i]
                ob.append((f'cdiff[{p},{i}] - df/dx{i} == shift^2 * d3f/6 (second order; exact for degree<=2)',
                           eq(gi - d1, d * d * d3 / 6)))
        return ob
    return fn


class _Cut(Exception):
    pass


def h_climb(nimg, dim):
    """ISMPath.step up to the integrator call: captured rate and climbrate closures"""
    def fn():
        from atomman.mep import ISMPath
        G = sa([[var(f'g{i}{j}') for j in range(dim)] for i in range(dim)])
        c0 = sa([var(f'c{i}') for i in range(dim)])
        coord = sa([[var(f'p{k}_{i}') for i in range(dim)] for k in range(nimg)])
        def gradfxn(efxn, x, **kw):
            x = np.asarray(x)
            return np.dot(x, G.T) + c0          # grad E(x) = G x + c  (row-wise)
        captured = []
        def integ(rate, coords, timestep, **kw):
            captured.append((rate, coords, kw))
            if len(captured) == 2:
                raise _Cut()
            return np.array(coords, dtype=object)
        path = ISMPath(coord, lambda x: 0, gradientfxn=gradfxn, gradientkwargs={}, integratorfxn=integ)
        # unit tangents supplied through a subclass-free override of the property value
        tau = sa([[var(f't{k}_{i}') for i in range(dim)] for k in range(nimg)])
        for k in range(nimg):
            assume(eq(sum(tau[k, i] * tau[k, i] for i in range(dim)), 1))
        cls = type('P', (ISMPath,), {'unittangent': property(lambda self: tau)})
        path.__class__ = cls
        ci = 1
        try:
            path.step(timestep=var('dt'), climbindex=ci)
        except _Cut:
            pass
        ob = []
        if len(captured) != 2:
            return [('step calls the integrator for the path and for the climbing image', False)]
        rate, coords, kw = captured[0]
        r = rate(coords)
        g = gradfxn(None, coords)
        for k in range(nimg):
            for i in range(dim):
                ob.append((f'rate[{k},{i}] == -grad E', eq(r[k, i], -g[k, i])))
        crate, ccoords, ckw = captured[1]
        ob.append(('climbing integrates exactly the climbing image', sx.alleq(ccoords, coord[[ci]])))
        if 'τ' not in ckw:
            return ob + [('tangent passed to climbrate', False)]
        t = ckw['τ']
        ob.append(('tangent passed is the climbing image tangent', sx.alleq(t, tau[[ci]])))
        cr = crate(ccoords, **ckw)
        gc = gradfxn(None, ccoords)
        par_r = sum(cr[0, i] * t[0, i] for i in range(dim))
        par_g = sum(gc[0, i] * t[0, i] for i in range(dim))
        ob.append(('climb: r.tau == +grad.tau', eq(par_r, par_g)))
        for i in range(dim):
            ob.append((f'climb: perpendicular part [{i}] == -(grad - (grad.tau)tau)',
                       eq(cr[0, i] - par_r * t[0, i], -(gc[0, i] - par_g * t[0, i]))))
        return ob
    return fn


def h_path_defaults():
    """a string built with the documented defaults (no gradientkwargs) can be constructed, stepped and relaxed"""
    def fn():
        from atomman.mep import ISMPath
        efxn = lambda x: np.sum(np.asarray(x) ** 2, axis=-1) if np.ndim(x) > 1 else float(np.sum(np.asarray(x) ** 2))
        coord = np.array([[-1.0, 0.2], [-0.5, 0.4], [0.0, 0.5], [0.5, 0.4], [1.0, 0.2]])
        ob = []
        try:
            p = ISMPath(coord, efxn)
        except Exception as e:
            if '/repo/' not in (e.__traceback__.tb_next.tb_frame.f_code.co_filename if e.__traceback__ and e.__traceback__.tb_next else ''): raise
            return [(f'ISMPath(coord, energyfxn) with default gradient settings can be constructed ({type(e).__name__}: {e})', False)]
        ob.append(('ISMPath(coord, energyfxn) with default gradient settings can be constructed', True))
        ob.append(('default gradientkwargs is an empty dict', p.gradientkwargs == {}))
        q = p.step(timestep=0.01)
        ob.append(('one default step moves every image down the gradient of a bowl (energies do not increase)', bool(np.all(np.asarray(q.energy()) <= np.asarray(p.energy()) + 1e-12))))
        return ob
    return fn


def h_relax_control(nrelax, nclimb):
    """ISMPath.relax loop control with step() cut: each phase runs until its own max-displacement-per-
    timestep drops below the tolerance or its step budget is used up (relaxation converging must not
    switch the climbing phase off); the step history is a symbolic sequence of displacements"""
    def fn():
        from atomman.mep import ISMPath
        tol = var('tol', 0.001, 1); dt = var('dt', 0.01, 1)
        dr = [var(f'd_relax{k}', 0.0001, 10) for k in range(nrelax)]
        dc = [var(f'd_climb{k}', 0.0001, 10) for k in range(nclimb)]
        if sx.symbolic_mode():
            for v in dr + dc:       # away from ties with the tolerance
                assume((v / dt - tol >= 1e-6) | (tol - v / dt >= 1e-6))
        calls = []
        class P(ISMPath):
            def step(self, timestep=None, climbindex=None):
                kind = 'relax' if climbindex is None else 'climb'
                k = sum(1 for c in calls if c[0] == kind)
                seq = dr if kind == 'relax' else dc
                shift = seq[k] if k < len(seq) else 1.0
                calls.append((kind, timestep, None if climbindex is None else list(np.asarray(climbindex).tolist())))
                new = np.array(self.coord, dtype=object) if sx.symbolic_mode() else np.array(self.coord, dtype=float)
                new[1, 0] = new[1, 0] + shift
                return P(sa(new) if sx.symbolic_mode() else new, self.energyfxn, gradientfxn=self.gradientfxn, gradientkwargs={}, integratorfxn='euler')
        efxn = lambda x: np.array([0.0, 1.0, 0.0])       # one interior maximum -> climb index [1]
        p = P(np.array([[0.0, 0.0], [0.5, 0.3], [1.0, 0.0]]), efxn, gradientfxn=lambda f, x, **kw: np.zeros_like(x), gradientkwargs={}, integratorfxn='euler')
        out = p.relax(relaxsteps=nrelax, climbsteps=nclimb, timestep=dt, tolerance=tol, verbose=False)
        nr = sum(1 for c in calls if c[0] == 'relax'); nc = sum(1 for c in calls if c[0] == 'climb')
        # expected counts from the symbolic history
        def expected(seq):
            n = 0
            for v in seq:
                n += 1
                if v / dt < tol: break
            return n
        ob = [('relaxation steps == first convergence or budget', nr == expected(dr)),
              ('climbing steps == first convergence or budget (independent of the relaxation phase)', nc == expected(dc)),
              ('phases in order', [c[0] for c in calls] == ['relax'] * nr + ['climb'] * nc),
              ('climbing applied to the interior energy maximum', all(c[2] == [1] for c in calls if c[0] == 'climb')),
              ('timestep passed on', band(*[eq(c[1], dt) for c in calls]))]
        ob.append(('returned path is the last one produced', eq(out.coord[1, 0], 0.5 + sum(dr[:nr]) + sum(dc[:nc]))))
        return ob
    return fn


def cases(tier, seed=0):
    cs = []
    nmax = 4 if tier == 'quick' else 6
    for n in range(1, nmax + 1):
        for kw in (False, True):
            if kw and n > 2 and tier == 'quick': continue
            cs.append(Case(f'euler_n{n}{"_kw" if kw else ""}', h_euler(n, kw), bind=BIND, budget_s=60,
                           descr=f'euler on y\'=Ay, n={n}, kwargs={kw}'))
            cs.append(Case(f'rk_n{n}{"_kw" if kw else ""}', h_rk(n, kw), bind=BIND, budget_s=120, timeout_ms=30000,
                           descr=f'rungekutta on y\'=Ay vs degree-4 Taylor polynomial of exp(hA), n={n}, kwargs={kw}'))
    for w in ('euler', 'rk'):
        cs.append(Case(f'{w}_integer_coords', h_int_coords(w), concrete_only=True, budget_s=60, descr=f'CONCRETE SAMPLE: {w} step on integer-typed coordinates'))
    cs.append(Case('rk_scalar', h_rk_scalar(), bind=BIND, descr='scalar coord (float input)'))
    combos = [(1, 4, 0), (2, 3, 0), (2, 4, 0), (2, 2, 2)] if tier == 'quick' else \
             [(1, 4, 0), (2, 3, 0), (2, 4, 0), (3, 3, 0), (3, 4, 0), (2, 4, 2), (3, 3, 2)]
    for nv, deg, lead in combos:
        cs.append(Case(f'cdiff_v{nv}_d{deg}_l{lead}', h_cdiff(nv, deg, lead), bind=BIND, budget_s=120, timeout_ms=30000,
                       descr=f'central_difference on all polynomials of degree<={deg} in {nv} variables, coord shape {"(%d,%d)" % (lead, nv) if lead else "(%d,)" % nv}'))
    cs.append(Case('climb_3x2', h_climb(3, 2), bind=BIND, budget_s=120, descr='ISMPath.step rate/climbrate closures, 3 images x 2 dims'))
    for nr, nc in ((1, 1), (2, 2), (2, 1)) if tier == 'quick' else ((1, 1), (2, 2), (2, 1), (3, 3), (1, 3), (0, 2)):
        cs.append(Case(f'relax_control_{nr}_{nc}', h_relax_control(nr, nc), bind=BIND, budget_s=120,
                       descr=f'ISMPath.relax loop control, step() cut, symbolic displacement history ({nr} relax, {nc} climb steps)'))
    if tier == 'thorough':
        cs.append(Case('climb_4x3', h_climb(4, 3), bind=BIND, budget_s=300, descr='ISMPath.step rate/climbrate closures, 4 images x 3 dims'))
    cs.append(Case('path_defaults', h_path_defaults(), concrete_only=True, budget_s=60, descr='a path built with the documented default arguments (concrete; no symbolic input)'))
    return cs
