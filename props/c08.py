# C08 Loading what was dumped returns the system (LAMMPS data/dump, table, POSCAR)
import itertools, math, re, io
import numpy as np
from vlib.run import Case
from symx import core as sx
from symx.core import var, assume, eq, le, lt, sa, band, bor, bnot, alleq, close
from props.c07 import mk_system, TOK, num, pstr
from props.c01 import expect_vects

META = dict(
    explanation='For each text format that atomman both writes and reads, the writer is executed on a symbolic system (values appear in the text as tokens, see C07) and the reader (load.atom_data, load.atom_dump, load.table, load.poscar with their process_prop_info helpers) is executed on that text; pandas.read_csv and float() of a token are replaced by a reference implementation of the whitespace-table subset atomman uses, which maps tokens back to their symbolic terms and is validated against the real pandas.read_csv on concrete texts in every run. The loaded system is compared with the original by the solver.',
    functions=['atomman/load/atom_data/load.py:load,firstpass,read_atoms,read_velocities', 'atomman/load/atom_dump/load.py:load,matchprops', 'atomman/load/table/load.py:load', 'atomman/load/table/process_prop_info.py', 'atomman/load/atom_dump/process_prop_info.py',
               'atomman/load/poscar/load.py:load', 'atomman/dump/* writers (as in C07)'],
    bounds=dict(quick='systems as in C07 (symbolic cell with origin, 2-3 atoms anywhere, velocities, charges); data files: atomic/charge/full x metal/real/si; dump files with pos/spos columns; table with the writer\'s conversion table incl. scaled positions; POSCAR direct/Cartesian with symbolic scale; text variants: shuffled atom lines, extra comment lines; missing-section rejections',
                thorough='all 8 periodicity settings'),
    outside=['numeric parsing by the real pandas C parser and float(): exercised only in the concrete replays', 'printed precision', 'text given as path (file I/O): string and stream input are used'],
    lemmas=[], cuts=['pandas.read_csv and float() replaced by a token-aware reference implementation (validated against real pandas each run)'],
    assumptions=['as C07'], trusted=['reference read_csv subset (sep=r"\\s+", names, skiprows, nrows, comment, header, usecols, dtype)'],
)
BIND = ['atomman.core.Box', 'atomman.core.System', 'atomman.core.Atoms', 'atomman.unitconvert', 'atomman.dump.atom_data.dump', 'atomman.dump.atom_dump.dump', 'atomman.dump.table.dump', 'atomman.dump.poscar.dump',
        'atomman.load.table.load', 'atomman.load.atom_data.load', 'atomman.load.atom_dump.load', 'atomman.load.poscar.load']


# ------------------------------------------------------------------ reference read_csv (token aware)
def ref_read_csv(f, sep=None, names=None, skiprows=None, nrows=None, comment=None, header='infer', usecols=None, dtype=None, skip_blank_lines=True, tokens=True):
    import pandas as pd
    text = f.read()
    if isinstance(text, bytes): text = text.decode('UTF-8')
    lines = text.split('\n')
    if lines and lines[-1] == '': lines = lines[:-1]
    if skiprows: lines = lines[int(skiprows):]
    rows = []
    for ln in lines:
        if comment is not None and comment in ln: ln = ln[:ln.index(comment)]
        if not ln.strip():
            continue                     # blank (or fully commented) lines are skipped
        rows.append(ln.split())
    if header == 'infer': header = None if names is not None else 0
    cols = None
    if header is not None:
        cols = rows[int(header)]; rows = rows[int(header) + 1:]
    if nrows is not None: rows = rows[:int(nrows)]
    if usecols is not None:
        uc_ = list(usecols)
        rows = [[r[c] for c in uc_] for r in rows]
        if cols is not None: cols = [cols[c] for c in uc_]
    if names is not None: cols = list(names)
    data = {}
    for j, c in enumerate(cols):
        col = [r[j] for r in rows]
        if tokens and any(TOK.fullmatch(x) for x in col):
            arr = np.empty(len(col), dtype=object)
            for i_, x in enumerate(col): arr[i_] = num(x)
            data[c] = arr
        else:
            vals = []
            for x in col:
                try: vals.append(int(x))
                except ValueError:
                    try: vals.append(float(x))
                    except ValueError: vals.append(x)
            a = np.array(vals)
            if dtype is not None: a = a.astype(dtype)
            data[c] = a
    return pd.DataFrame(data, columns=cols)


class PdShim:
    def __init__(self): import pandas as pd; self._pd = pd
    def read_csv(self, *a, **k): return ref_read_csv(*a, **k)
    def __getattr__(self, n): return getattr(self._pd, n)


def tokfloat(x):
    if isinstance(x, (bytes, str)):
        s = x.decode() if isinstance(x, bytes) else x
        if TOK.fullmatch(s.strip()): return sx.TOKENS[s.strip()]
    return float(x)


def setup(mode):
    """symbolic mode: token-aware float() and read_csv in the loader modules; concrete mode: the real ones"""
    import sys, importlib
    for m in ('atomman.load.table.load', 'atomman.load.atom_data.load', 'atomman.load.atom_dump.load', 'atomman.load.poscar.load'):
        mod = sys.modules.get(m) or importlib.import_module(m)
        if mode == 'sym':
            mod.float = tokfloat
            if hasattr(mod, 'pd'): mod.pd = PdShim()
        else:
            if 'float' in vars(mod): del mod.float
            if hasattr(mod, 'pd') and isinstance(mod.pd, PdShim): import pandas; mod.pd = pandas
    # np.array of token strings (POSCAR reader): handled by a thin wrapper around the shim
    pl = sys.modules['atomman.load.poscar.load']
    if mode == 'sym':
        base = sx.npshim
        class NPTok:
            def __getattr__(self, n): return getattr(base, n)
            def array(self, x, dtype=None, **k):
                if isinstance(x, (list, tuple)) and x and all(isinstance(t, (str, bytes)) for t in x):
                    vals = [tokfloat(t) for t in x]
                    return base.array(vals, **k) if any(sx.is_sym(v) for v in vals) else np.array(vals, dtype=dtype)
                return base.array(x, dtype=dtype, **k)
        pl.np = NPTok()


def tv_read_csv(seed):
    """translation validation of the reference reader against the real pandas.read_csv"""
    def fn():
        import pandas as pd
        rng = np.random.default_rng(seed)
        bad = 0; n = 0
        for k in range(30):
            nr = int(rng.integers(1, 6)); nc = int(rng.integers(2, 6))
            body = [' '.join((str(int(rng.integers(1, 9))) if j < 2 else repr(float(rng.normal()))) for j in range(nc)) + ('   # note' if rng.random() < 0.3 else '') for _ in range(nr)]
            pre = ['title line', '', 'Atoms # x', ''][:int(rng.integers(0, 5))]
            post = ['', 'Velocities', '', '1 0 0 0']
            extra_blank = ['# a comment line'] if k % 3 == 0 else []
            text = '\n'.join(pre + extra_blank + body + post) + '\n'
            names = [f'c{j}' for j in range(nc)]
            for kw in (dict(names=names, skiprows=len(pre), nrows=nr, comment='#', header=None), dict(names=names[:2], skiprows=len(pre), nrows=nr, comment='#', header=None, usecols=range(2)),
                       dict(names=names[-2:], skiprows=len(pre), nrows=nr, comment='#', header=None, usecols=range(nc - 2, nc))):
                a = ref_read_csv(io.StringIO(text), sep=r'\s+', tokens=False, **kw); b = pd.read_csv(io.StringIO(text), sep=r'\s+', **kw)
                n += 1
                if list(a.columns) != list(b.columns) or a.shape != b.shape or not np.allclose(a.values.astype(float), b.values.astype(float)): bad += 1
        hdr = 'a b c\n1 2.5 3\n4 5.5 6\n'
        a = ref_read_csv(io.StringIO(hdr), sep=r'\s+', tokens=False); b = pd.read_csv(io.StringIO(hdr), sep=r'\s+')
        n += 1; bad += not (list(a.columns) == list(b.columns) and np.allclose(a.values.astype(float), b.values.astype(float)))
        return [(f'reference read_csv agrees with pandas.read_csv on {n} seeded concrete texts/keyword sets', bad == 0)]
    return fn


def same_system(new, v, natoms, tag, vel=False, charge=False, pbc=None, S=1e3):
    ob = [(f'{tag}: atom count', new.natoms == natoms)]
    if new.natoms != natoms: return ob
    nV = new.box.vects; nO = new.box.origin
    return ob, nV, nO


def h_data_roundtrip(atom_style, units, pbc, with_velocity, variant):
    def fn():
        import atomman as am
        s, v = mk_system(pbc, with_velocity=with_velocity, with_charge=atom_style in ('charge', 'full'), with_mol=atom_style == 'full')
        text = s.dump('atom_data', atom_style=atom_style, units=units, float_format='%s', return_info=False)
        if variant == 'shuffled':
            lines = text.split('\n'); i = lines.index(f'Atoms # {atom_style}') + 2
            lines[i], lines[i + 1] = lines[i + 1], lines[i]; text = '\n'.join(lines)
        if variant == 'comments':
            text = text.replace('xlo xhi', 'xlo xhi   # bounds').replace(f'Atoms # {atom_style}\n', f'Atoms # {atom_style}\n', 1)
            text = 'written by a test # with a comment\n' + text.split('\n', 1)[1]
            lines = text.split('\n'); i = lines.index(f'Atoms # {atom_style}') + 2
            lines[i] = lines[i] + '   # first atom'; lines[i + 1] = lines[i + 1] + ' # second atom'; text = '\n'.join(lines)       # comments the format allows after a data line
        src = io.BytesIO(text.encode()) if variant == 'stream' else text
        new = am.load('atom_data', src, pbc=pbc, atom_style=None if variant != 'explicit_style' else atom_style, units=units)
        wV = s.box.vects; wO = s.box.origin           # the writer wraps the system: compare with the wrapped (possibly enlarged) cell
        S = 1e3
        ob = [('atom count', new.natoms == 2)]
        if new.natoms != 2: return ob
        nV = new.box.vects; nO = new.box.origin
        ob.append(('cell vectors and origin', band(*[eq(nV[i][j], wV[i][j], S) for i in range(3) for j in range(3)], *[eq(nO[j], wO[j], S) for j in range(3)])))
        ob.append(('atom types', [int(t) for t in new.atoms.atype] == [2, 1]))
        ob.append(('positions (image flags undone: the original, unwrapped positions)', band(*[eq(new.atoms.pos[k, j], v['P'][k][j], S) for k in range(2) for j in range(3)])))
        if v['Q'] is not None and units != 'cgs':
            ob.append(('charges with the unit conversion undone', band(*[eq(new.atoms.charge[k], v['Q'][k], 10) for k in range(2)])))
        if with_velocity:
            ob.append(('velocities with the unit conversion undone', band(np.shape(new.atoms.velocity) == (2, 3), *[eq(new.atoms.velocity[k, j], v['Vel'][k][j], 100) for k in range(2) for j in range(3)])))
        if atom_style == 'full': ob.append(('molecule ids', [int(t) for t in new.atoms.m_id] == [7, 9]))
        ob.append(('periodicity as requested', tuple(bool(x) for x in new.pbc) == tuple(pbc)))
        return ob
    return fn


def h_data_reject(missing):
    def fn():
        import atomman as am
        from atomman.load import FileFormatError
        s, v = mk_system((True, True, True))
        text = s.dump('atom_data', float_format='%s', return_info=False)
        lines = text.split('\n')
        if missing == 'natoms': lines = [l for l in lines if not l.endswith(' atoms')]
        elif missing == 'box': lines = [l for l in lines if not l.endswith('ylo yhi')]
        elif missing == 'atoms': lines = lines[:lines.index('Atoms # atomic')]
        try:
            am.load('atom_data', '\n'.join(lines))
        except FileFormatError:
            return [(f'data file without {missing} rejected with the format error', True)]
        return [(f'data file without {missing} rejected with the format error', False)]
    return fn


def h_dumpfile_roundtrip(units, pbc, variant):
    def fn():
        import atomman as am
        s, v = mk_system(pbc, with_velocity=True, with_charge=True)
        kw = dict(prop_name=['atom_id', 'atype', variant, 'velocity', 'charge']) if variant != 'pos' else {}
        text = s.dump('atom_dump', lammps_units=units, float_format='%s', **kw)
        new = am.load('atom_dump', io.BytesIO(text.encode()) if variant == 'spos' else text, lammps_units=units)
        S = 1e3
        ob = [('atom count', new.natoms == 2)]
        if new.natoms != 2: return ob
        V = v['V']; O = v['O']; nV = new.box.vects; nO = new.box.origin
        ob.append(('cell vectors and origin (bounding box undone)', band(*[eq(nV[i][j], V[i][j], S) for i in range(3) for j in range(3)], *[eq(nO[j], O[j], S) for j in range(3)])))
        ob.append(('periodic flags', tuple(bool(x) for x in new.pbc) == tuple(pbc)))
        ob.append(('atom types', [int(t) for t in new.atoms.atype] == [2, 1]))
        ob.append(('positions', band(*[eq(new.atoms.pos[k, j], v['P'][k][j], S) for k in range(2) for j in range(3)])))
        ob.append(('velocities, charges', band(*[eq(new.atoms.velocity[k, j], v['Vel'][k][j], 100) for k in range(2) for j in range(3)], *[eq(new.atoms.charge[k], v['Q'][k], 10) for k in range(2)])))
        return ob
    return fn


def h_table_roundtrip():
    def fn():
        import atomman as am
        s, v = mk_system((True, True, True), with_velocity=True)
        F = [[[var(f't{k}{a}{b}', -3, 3) for b in range(2)] for a in range(2)] for k in range(2)]
        s.atoms.tens = sa(F)
        text, pinfo = s.dump('table', prop_name=['atype', 'pos', 'velocity', 'tens'], unit=[None, 'scaled', 'angstrom/ps', None], float_format='%s', return_prop_info=True)
        new = am.load('table', text, box=s.box, prop_info=pinfo, symbols=['Al', 'Cu'])
        S = 1e3
        ob = [('atom count', new.natoms == 2)]
        if new.natoms != 2: return ob
        ob.append(('types', [int(t) for t in new.atoms.atype] == [2, 1]))
        ob.append(('positions (written box-relative, read back with the writer\'s conversion table)', band(*[eq(new.atoms.pos[k, j], v['P'][k][j], S) for k in range(2) for j in range(3)])))
        ob.append(('velocities', band(*[eq(new.atoms.velocity[k, j], v['Vel'][k][j], 100) for k in range(2) for j in range(3)])))
        ob.append(('rank-2 property keeps its shape and values', band(np.shape(new.atoms.tens) == (2, 2, 2), *[eq(new.atoms.tens[k, a, b], F[k][a][b]) for k in range(2) for a in range(2) for b in range(2)])))
        ob.append(('symbols', tuple(new.symbols) == ('Al', 'Cu')))
        return ob
    return fn


def h_poscar_roundtrip(coordstyle, symbolic_scale, with_symbols, gap=False):
    def fn():
        import atomman as am
        lx, ly, lz = [var(n, 1, 10) for n in ('lx', 'ly', 'lz')]
        xy, xz, yz = [var(n, -10, 10, deadzone=0.001) for n in ('xy', 'xz', 'yz')]
        V = expect_vects(lx, ly, lz, xy, xz, yz)
        box = am.Box(lx=lx, ly=ly, lz=lz, xy=xy, xz=xz, yz=yz)
        Sc = [[var(f's{k}{i}', 0, 1) for i in range(3)] for k in range(3)]
        P = [[sum(Sc[k][i] * V[i][j] for i in range(3)) for j in range(3)] for k in range(3)]
        if gap:
            # three declared types, the second one without atoms
            s = am.System(atoms=am.Atoms(pos=sa(P), atype=[3, 1, 3]), box=box, symbols=['Al', 'Ni', 'Cu'])
        else:
            s = am.System(atoms=am.Atoms(pos=sa(P), atype=[2, 1, 2]), box=box, symbols=['Al', 'Cu'] if with_symbols else [None, None])
        sc = var('scale', 0.5, 4) if symbolic_scale else 1.0
        text = s.dump('poscar', coordstyle=coordstyle, box_scale=sc, float_format='%s')
        new = am.load('poscar', text)
        S = 1e3
        ob = [('atom count', new.natoms == 3)]
        if new.natoms != 3: return ob
        nV = new.box.vects
        ob.append(('cell vectors', band(*[eq(nV[i][j], V[i][j], S) for i in range(3) for j in range(3)])))
        ob.append(('atoms grouped by type (documented normalisation): types 1,2,2' if not gap else 'atoms grouped by type, the empty type keeps its place: types 1,3,3', [int(t) for t in new.atoms.atype] == ([1, 2, 2] if not gap else [1, 3, 3])))
        for n_, k in enumerate([1, 0, 2]):
            ob.append((f'position of original atom {k}', band(*[eq(new.atoms.pos[n_, j], P[k][j], S) for j in range(3)])))
        ob.append(('element symbols', tuple(new.symbols) == ((('Al', 'Cu') if with_symbols else (None, None)) if not gap else ('Al', 'Ni', 'Cu'))))
        return ob
    return fn


def cases(tier, seed=0):
    cs = [Case('read_csv_reference', tv_read_csv(seed), concrete_only=True, budget_s=120, descr='reference read_csv vs the real pandas.read_csv (translation validation)')]
    T = (True, True, True)
    combos = [('atomic', 'metal', T, False, 'plain'), ('charge', 'real', T, True, 'shuffled'), ('full', 'si', T, False, 'comments'), ('atomic', 'metal', (True, False, True), False, 'stream'),
              ('charge', 'metal', (False, True, False), True, 'explicit_style')]
    if tier == 'thorough':
        combos += [(st, un, pbc, True, 'plain') for st, un in (('atomic', 'real'), ('charge', 'si')) for pbc in itertools.product([True, False], repeat=3)]
    for st, un, pbc, vel, var_ in combos:
        cs.append(Case(f'data_{st}_{un}_{pstr(pbc)}_{var_}', h_data_roundtrip(st, un, pbc, vel, var_), bind=BIND, setup=setup, budget_s=150, timeout_ms=15000, max_paths=300, weight=2 if pbc != T else 1,
                       descr=f'load(dump) LAMMPS data file: {st}, {un}, pbc {pstr(pbc)}, velocities={vel}, text variant {var_}'))
    for m in ('natoms', 'box', 'atoms'):
        cs.append(Case(f'data_reject_{m}', h_data_reject(m), bind=BIND, setup=setup, budget_s=120, timeout_ms=15000, max_paths=100, descr=f'data file lacking {m} rejected'))
    for un, pbc, var_ in (('metal', T, 'pos'), ('si', (True, False, True), 'spos'), ('real', (False, True, True), 'pos')):
        cs.append(Case(f'dumpfile_{un}_{pstr(pbc)}_{var_}', h_dumpfile_roundtrip(un, pbc, var_), bind=BIND, setup=setup, budget_s=150, timeout_ms=15000, max_paths=300, descr=f'load(dump) LAMMPS dump file: {un}, pbc {pstr(pbc)}, {var_}'))
    cs.append(Case('table', h_table_roundtrip(), bind=BIND, setup=setup, budget_s=120, timeout_ms=15000, descr='load(dump) generic table using the writer\'s conversion table (scaled positions, units, rank-2 property)'))
    for cstyle, ss, sym in (('direct', False, True), ('Cartesian', True, True), ('direct', True, False), ('Cartesian', False, False)):
        cs.append(Case(f'poscar_{cstyle}{"_scale" if ss else ""}{"" if sym else "_nosymbols"}', h_poscar_roundtrip(cstyle, ss, sym), bind=BIND, setup=setup, budget_s=120, timeout_ms=15000,
                       descr=f'load(dump) POSCAR: {cstyle}, {"symbolic scale" if ss else "scale 1"}, symbols {"present" if sym else "absent"}'))
    cs.append(Case('poscar_direct_type_gap', h_poscar_roundtrip('direct', True, True, gap=True), bind=BIND, setup=setup, budget_s=120, timeout_ms=15000, descr='load(dump) POSCAR with three declared types of which the second has no atoms'))
    return cs
