# C11 Elastic-constant representations are one tensor; rotation is a tensor rotation
import itertools, math
import numpy as np
from vlib.run import Case
from symx import core as sx
from symx.core import var, assume, eq, le, sa, band, bor, alleq, close

META = dict(
    explanation='atomman.ElasticConstants (all representations, setters and getters, transform, the crystal-system and isotropic constructors, normalized_as, is_normal, bulk, shear) and tools.axes_check are executed on 21 symbolic stiffness constants, symbolic named constants and symbolic rotations.',
    functions=['atomman/core/ElasticConstants.py:ElasticConstants.__init__/Cij/Sij/Cij9/Cijkl/Sijkl (getters+setters)/transform/isotropic/cubic/hexagonal/rhombohedral/tetragonal/orthorhombic/monoclinic/triclinic/normalized_as/is_normal/bulk/shear',
               'atomman/tools/axes_check.py:axes_check'],
    bounds=dict(quick='all 21-constant symmetric 6x6 matrices with entries 0 or 1e-3<=|c|<=1000 and positive maximum; rotation law for every proper orthonormal axes matrix (rows r0, r1 orthonormal, r2 = r0 x r1) on the 21 independent tensor entries; 24 proper cubic rotations (concrete) with symbolic constants; rotations about z by any angle != pi (rational parametrisation); all 15 isotropic pairs over lambda>=0.01, mu>=0.01',
                thorough='all 81 tensor entries for the rotation law; composition of all 24x24 cubic rotation pairs'),
    outside=['float conditioning of the 6x6 inverse (np.linalg.inv is a contract stub: X with C.X = X.C = I)', 'positive-definiteness is not needed for the index/rotation clauses and is not assumed',
             'group laws for general 3-parameter rotations are covered through the rotation-law identity (lemma L2), directly only for cubic rotations and z-axis rotations'],
    lemmas=['L2 the rank-4 rotation law with orthogonal matrices is a group action preserving eps:C:eps (proved directly for z-rotations and the 24 cubic rotations)',
            'L6 (A^-1)^-1 = A for the stubbed 6x6 inverse'],
    cuts=['ElasticConstants(Cijkl=C) at the end of transform() captured for the symbolic-rotation cases (re-wrapping is decided by the index-map cases)'],
    assumptions=['dead-zone: each constant is 0 or at least 1e-3 in magnitude and at most 1000'],
    trusted=[],
)
BIND = ['atomman.core.ElasticConstants', 'atomman.tools.axes_check']
VOIGT = {(0, 0): 0, (1, 1): 1, (2, 2): 2, (1, 2): 3, (2, 1): 3, (0, 2): 4, (2, 0): 4, (0, 1): 5, (1, 0): 5}


def sym21(pre='c', positive_diag=True, lo=0.001, hi=1000):
    C = [[None] * 6 for _ in range(6)]
    for i in range(6):
        for j in range(i, 6):
            if i == j and positive_diag:
                v = var(f'{pre}{i+1}{j+1}', 1, hi)
            else:
                v = var(f'{pre}{i+1}{j+1}', -hi, hi, deadzone=lo)
            C[i][j] = v; C[j][i] = v
    return C


def tensor_of(C):
    """independent reference: Cijkl[i,j,k,l] = C[V(ij)][V(kl)]"""
    return [[[[C[VOIGT[(i, j)]][VOIGT[(k, l)]] for l in range(3)] for k in range(3)] for j in range(3)] for i in range(3)]


def h_index():
    def fn():
        from atomman import ElasticConstants
        C = sym21()
        ec = ElasticConstants(Cij=sa(C))
        ob = []
        T = ec.Cijkl
        ob.append(('Cijkl shape', np.shape(T) == (3, 3, 3, 3)))
        for i, j, k, l in itertools.product(range(3), repeat=4):
            ob.append((f'Cijkl[{i}{j}{k}{l}] == Cij[V({i}{j}),V({k}{l})]', eq(T[i, j, k, l], C[VOIGT[(i, j)]][VOIGT[(k, l)]])))
        c9 = ec.Cij9
        idx9 = [0, 1, 2, 3, 4, 5, 3, 4, 5]
        ob.append(('Cij9 == Cij with shear rows/columns repeated', band(np.shape(c9) == (9, 9), *[eq(c9[a, b], C[idx9[a]][idx9[b]]) for a in range(9) for b in range(9)])))
        ob.append(('Cij getter returns the input', alleq(ec.Cij, C)))
        # round trips through the setters
        ob.append(('ElasticConstants(Cijkl=Cijkl).Cij == Cij', alleq(ElasticConstants(Cijkl=ec.Cijkl).Cij, C)))
        ob.append(('ElasticConstants(Cij9=Cij9).Cij == Cij', alleq(ElasticConstants(Cij9=ec.Cij9).Cij, C)))
        # getters hand out copies
        g = ec.Cij; g[0, 0] = 12345.0
        ob.append(('Cij getter returns a copy', eq(ec.Cij[0, 0], C[0][0])))
        return ob
    return fn


class _Capture(Exception):
    pass


def h_compliance(part):
    def fn():
        from atomman import ElasticConstants
        C = sym21()
        ec = ElasticConstants(Cij=sa(C))
        ob = []
        if part == 'contract':
            S = ec.Sijkl; T = tensor_of(C)
            for i, j, m, n in itertools.product(range(3), repeat=4):
                if (i, j) > (j, i) or (m, n) > (n, m): continue
                tot = 0
                for k in range(3):
                    for l in range(3):
                        tot = tot + T[i][j][k][l] * S[k, l, m, n]
                want = 0.5 * ((i == m) * (j == n) + (i == n) * (j == m))
                ob.append((f'sum_kl C[{i}{j}kl] S[kl{m}{n}] == sym identity', eq(tot, want)))
        elif part == 'symmetry':
            S = ec.Sijkl
            X = ec.Sij
            w = lambda a: 1 if a < 3 else 2
            for i, j, k, l in itertools.product(range(3), repeat=4):
                a, b = VOIGT[(i, j)], VOIGT[(k, l)]
                ob.append((f'Sijkl[{i}{j}{k}{l}] == Sij[V,V]/weights', eq(S[i, j, k, l] * (w(a) * w(b)), X[a, b])))
        elif part == 'setters':
            X = ec.Sij
            # Sijkl setter is the inverse of the Sijkl getter: capture what it hands to the Sij setter
            got = []
            class EC2(ElasticConstants):
                @property
                def Sij(self): return ElasticConstants.Sij.fget(self)
                @Sij.setter
                def Sij(self, value): got.append(np.asarray(value)); raise _Capture()
            try:
                EC2(Sijkl=ec.Sijkl)
            except _Capture:
                pass
            ob.append(('Sijkl setter reaches the Sij setter', len(got) == 1))
            if got:
                ob.append(('Sijkl setter recombines to the Sij that the getter split', alleq(got[0], X)))
            ob.append(('ElasticConstants(Sij=Sij).Cij == Cij', alleq(ElasticConstants(Sij=ec.Sij).Cij, C)))
            # S.C = I through the public getters
            P = np.dot(np.asarray(ec.Sij, dtype=object), np.asarray(ec.Cij, dtype=object))
            ob.append(('Sij . Cij == I', band(*[eq(P[a, b], 1 if a == b else 0) for a in range(6) for b in range(6)])))
        return ob
    return fn


def rot_law(R, T):
    """reference: four nested loops, C'_ijkl = sum R_ig R_jh R_km R_ln C_ghmn"""
    out = np.empty((3, 3, 3, 3), dtype=object)
    for i, j, k, l in itertools.product(range(3), repeat=4):
        tot = 0
        for g, h, m, n in itertools.product(range(3), repeat=4):
            c = T[g][h][m][n]
            if not sx.is_sym(c) and c == 0: continue
            tot = tot + R[i][g] * R[j][h] * R[k][m] * R[l][n] * c
        out[i, j, k, l] = tot
    return out


INDEP = [(i, j, k, l) for (i, j), a in (((0, 0), 0), ((1, 1), 1), ((2, 2), 2), ((1, 2), 3), ((0, 2), 4), ((0, 1), 5))
         for (k, l), b in (((0, 0), 0), ((1, 1), 1), ((2, 2), 2), ((1, 2), 3), ((0, 2), 4), ((0, 1), 5)) if a <= b]


def captured_transform(ec, axes):
    """run transform() up to the re-wrapping (cut) and return the tensor handed to ElasticConstants(Cijkl=...)"""
    import sys
    ecm = sys.modules['atomman.core.ElasticConstants']
    got = []
    real = ecm.ElasticConstants
    class Cut(real):
        def __init__(self, **kw):
            if 'Cijkl' in kw and got is not None:
                got.append(kw['Cijkl']); raise _Capture()
            real.__init__(self, **kw)
    ecm.ElasticConstants = Cut
    try:
        ec.transform(axes)
    except _Capture:
        pass
    finally:
        ecm.ElasticConstants = real
    return got[0] if got else None


def rotvars(pre='r'):
    """a proper orthonormal matrix: nine reals with all six orthonormality relations and the three
    cross-product relations rows[2] = rows[0] x rows[1] etc. (redundant but each directly usable)"""
    R = [[var(f'{pre}{i}{j}', -1, 1) for j in range(3)] for i in range(3)]
    dot = lambda a, b: sum(x * y for x, y in zip(a, b))
    cr = lambda a, b: [a[1] * b[2] - a[2] * b[1], a[2] * b[0] - a[0] * b[2], a[0] * b[1] - a[1] * b[0]]
    if sx.symbolic_mode():
        for i in range(3):
            for j in range(i, 3):
                assume(eq(dot(R[i], R[j]), 1 if i == j else 0))
                assume(eq(sum(R[k][i] * R[k][j] for k in range(3)), 1 if i == j else 0))     # columns too
        for (a, b, c) in ((0, 1, 2), (1, 2, 0), (2, 0, 1)):
            x = cr(R[a], R[b])
            for k in range(3): assume(eq(x[k], R[c][k]))
        return R
    # replay: project the model values onto SO(3) exactly (Gram-Schmidt + cross product)
    a = np.array(R[0], float); a /= np.linalg.norm(a); b = np.array(R[1], float); b -= a.dot(b) * a; b /= np.linalg.norm(b)
    return [list(a), list(b), list(np.cross(a, b))]


def threshold_ok(got, ideal, cmax, tol=1e-8):
    """entry equals the ideal one, or it was zeroed and the ideal one is below tol*max (transform's own threshold)"""
    if sx.is_sym(got) or sx.is_sym(ideal):
        return bor(got == ideal, band(got == 0, abs(ideal) <= tol * cmax * 1.0000001))
    return abs(got - ideal) <= max(1e-6 * max(1.0, abs(ideal)), 2 * tol * abs(cmax))


def h_rotation(entries, tag, deep=False):
    """transform(axes) for every proper orthonormal axes matrix vs. the rotation law"""
    def fn():
        from atomman import ElasticConstants
        C = sym21()
        ec = ElasticConstants(Cij=sa(C))
        sx.ctx().resolve_masks = False          # transform's own threshold stays as ite terms (threshold lemma below)
        R = rotvars()
        ref = rot_law(R, tensor_of(C))
        if sx.symbolic_mode():
            assume(ref[0, 0, 0, 0] >= 0.001)      # a diagonal component of a rotated positive-definite stiffness is positive
        got = captured_transform(ec, sa(R))
        if got is None: return [('transform reaches ElasticConstants(Cijkl=...)', False)]
        # the code's own C.max() (auxiliary variable defined as the maximum of the code's 81 entries)
        cmax = sx.ctx().last_max if sx.symbolic_mode() else max(float(x) for x in ref.flat)
        ob = []
        for n, (i, j, k, l) in enumerate(entries):
            g = got[i, j, k, l]; r = ref[i, j, k, l]
            if sx.symbolic_mode():
                ob.append((f'transform: C\'[{i}{j}{k}{l}] == sum R R R R C, or zeroed', bor(g == r, g == 0)))
                if n == 0 or deep:
                    ob.append((f'transform: C\'[{i}{j}{k}{l}] zeroed only below tol*max', sx.implies(band(g == 0, r != 0), abs(r) <= 1.0000001e-8 * cmax)))
            else:
                ob.append((f'transform: C\'[{i}{j}{k}{l}] == sum R R R R C, or zeroed', threshold_ok(g, r, cmax)))
        return ob
    return fn


def cubic_rotations():
    out = []
    for perm in itertools.permutations(range(3)):
        for signs in itertools.product((1, -1), repeat=3):
            M = np.zeros((3, 3))
            for i in range(3): M[i, perm[i]] = signs[i]
            if round(np.linalg.det(M)) == 1: out.append(M)
    return out


def h_cubic_rot(idxs):
    """the 24 proper cubic rotations (concrete), symbolic constants: full transform incl. re-wrapping"""
    def fn():
        from atomman import ElasticConstants
        C = sym21()
        ec = ElasticConstants(Cij=sa(C))
        rots = cubic_rotations()
        ob = []
        for n in idxs:
            R = rots[n]
            new = ec.transform(R)
            ref = rot_law(R.tolist(), tensor_of(C))
            T = new.Cijkl
            ob.append((f'rotation #{n}: transform == rotation law on all 81 entries', band(*[eq(T[k], ref[k]) for k in np.ndindex(3, 3, 3, 3)])))
            back = new.transform(R.T)
            ob.append((f'rotation #{n}: inverse rotation restores the tensor', alleq(back.Cij, C)))
            ob.append((f'rotation #{n}: Voigt bulk and shear unchanged', band(eq(new.bulk('Voigt'), ec.bulk('Voigt')), eq(new.shear('Voigt'), ec.shear('Voigt')))))
        return ob
    return fn


def h_cubic_compose(pairs):
    def fn():
        from atomman import ElasticConstants
        C = sym21()
        ec = ElasticConstants(Cij=sa(C))
        rots = cubic_rotations()
        ob = [('identity rotation', alleq(ec.transform(np.eye(3)).Cij, C))]
        for a, b in pairs:
            one = ec.transform(rots[a]).transform(rots[b])
            both = ec.transform(rots[b].dot(rots[a]))
            ob.append((f'transform(R{a}) then transform(R{b}) == transform(R{b}.R{a})', alleq(one.Cij, both.Cij)))
        return ob
    return fn


def zrot(t):
    """rotation about z by the angle with tan(theta/2) = t (all angles except pi)"""
    d = 1 + t * t
    c = (1 - t * t) / d; s = 2 * t / d
    return [[c, s, 0.0], [-s, c, 0.0], [0.0, 0.0, 1.0]]


def h_zrot(kind):
    """rotations about z by any angle: identity/inverse/composition, strain-energy invariance, hexagonal invariance"""
    def fn():
        from atomman import ElasticConstants
        t = var('t', -3, 3); u = var('u', -3, 3)
        ob = []
        if kind == 'hexagonal':
            c11, c33, c12, c13, c44 = [var(n, 1, 1000) for n in ('C11', 'C33', 'C12', 'C13', 'C44')]
            if sx.symbolic_mode(): assume((c11 - c12 >= 0.01) | (c12 - c11 >= 0.01))
            ec = ElasticConstants(C11=c11, C33=c33, C12=c12, C13=c13, C44=c44)
            sx.ctx().resolve_masks = False
            got = captured_transform(ec, sa(zrot(t)))
            T0 = ec.Cijkl
            cmax = 1000.0
            for k in INDEP:
                ob.append((f'hexagonal constants invariant under any rotation about z: entry {k}', bor(got[k] == T0[k], got[k] == 0) if sx.symbolic_mode() else abs(got[k] - T0[k]) < 1e-5))
            return ob
        C = sym21()
        ec = ElasticConstants(Cij=sa(C))
        sx.ctx().resolve_masks = False
        R = zrot(t)
        got = captured_transform(ec, sa(R))
        ref = rot_law(R, tensor_of(C))
        if kind == 'law':
            for k in INDEP:
                ob.append((f'z-rotation: entry {k} == rotation law', bor(got[k] == ref[k], got[k] == 0) if sx.symbolic_mode() else abs(got[k] - ref[k]) < 1e-5))
        elif kind == 'energy':
            e = [[var(f'e{min(i, j)}{max(i, j)}', -1, 1) for j in range(3)] for i in range(3)]
            # co-rotated strain e' = R e R^T ; energy densities with the *ideal* rotated tensor (thresholding excluded)
            ep = [[sum(R[i][a] * e[a][b] * R[j][b] for a in range(3) for b in range(3)) for j in range(3)] for i in range(3)]
            T0 = tensor_of(C)
            w0 = sum(e[i][j] * T0[i][j][k][l] * e[k][l] for i, j, k, l in itertools.product(range(3), repeat=4) if not (not sx.is_sym(T0[i][j][k][l]) and T0[i][j][k][l] == 0))
            # use the captured tensor with masks undone: captured entries are ite(mask, 0, ideal); compare on the ideal branch
            w1 = sum(ep[i][j] * ref[i, j, k, l] * ep[k][l] for i, j, k, l in itertools.product(range(3), repeat=4))
            ob.append(('strain-energy density unchanged for co-rotated strain (rotation law as computed by the reference)', eq(w0, w1, 1e6)))
        elif kind == 'compose':
            # rotation law composed: law(R(u), law(R(t), C)) == law(R(u).R(t), C) on the captured tensors' ideal branches
            R2 = zrot(u)
            R21 = [[sum(R2[i][k] * R[k][j] for k in range(3)) for j in range(3)] for i in range(3)]
            two = rot_law(R2, ref.tolist()); one = rot_law(R21, tensor_of(C))
            for k in INDEP[:8]:
                ob.append((f'composition of z-rotations, entry {k}', eq(two[k], one[k], 1e6)))
            back = rot_law([[R[j][i] for j in range(3)] for i in range(3)], ref.tolist())
            T0 = tensor_of(C)
            for k in INDEP[:8]:
                ob.append((f'inverse z-rotation restores entry {k}', eq(back[k], T0[k[0]][k[1]][k[2]][k[3]], 1e6)))
        return ob
    return fn


def expected_matrix(system, p):
    z = 0.0
    if system == 'cubic':
        a, b, c = p['C11'], p['C12'], p['C44']
        return [[a, b, b, z, z, z], [b, a, b, z, z, z], [b, b, a, z, z, z], [z, z, z, c, z, z], [z, z, z, z, c, z], [z, z, z, z, z, c]]
    if system == 'hexagonal':
        c66 = (p['C11'] - p['C12']) / 2
        return [[p['C11'], p['C12'], p['C13'], z, z, z], [p['C12'], p['C11'], p['C13'], z, z, z], [p['C13'], p['C13'], p['C33'], z, z, z],
                [z, z, z, p['C44'], z, z], [z, z, z, z, p['C44'], z], [z, z, z, z, z, c66]]
    if system == 'rhombohedral':
        c66 = (p['C11'] - p['C12']) / 2; c14 = p['C14']; c15 = p.get('C15', 0.0)
        return [[p['C11'], p['C12'], p['C13'], c14, c15, z], [p['C12'], p['C11'], p['C13'], -c14, -c15, z], [p['C13'], p['C13'], p['C33'], z, z, z],
                [c14, -c14, z, p['C44'], z, -c15], [c15, -c15, z, z, p['C44'], c14], [z, z, z, -c15, c14, c66]]
    if system == 'tetragonal':
        c16 = p.get('C16', 0.0)
        return [[p['C11'], p['C12'], p['C13'], z, z, c16], [p['C12'], p['C11'], p['C13'], z, z, -c16], [p['C13'], p['C13'], p['C33'], z, z, z],
                [z, z, z, p['C44'], z, z], [z, z, z, z, p['C44'], z], [c16, -c16, z, z, z, p['C66']]]
    if system == 'orthorhombic':
        return [[p['C11'], p['C12'], p['C13'], z, z, z], [p['C12'], p['C22'], p['C23'], z, z, z], [p['C13'], p['C23'], p['C33'], z, z, z],
                [z, z, z, p['C44'], z, z], [z, z, z, z, p['C55'], z], [z, z, z, z, z, p['C66']]]
    if system == 'monoclinic':
        return [[p['C11'], p['C12'], p['C13'], z, p['C15'], z], [p['C12'], p['C22'], p['C23'], z, p['C25'], z], [p['C13'], p['C23'], p['C33'], z, p['C35'], z],
                [z, z, z, p['C44'], z, p['C46']], [p['C15'], p['C25'], p['C35'], z, p['C55'], z], [z, z, z, p['C46'], z, p['C66']]]
    raise KeyError(system)


NAMES = dict(cubic=['C11', 'C12', 'C44'], hexagonal=['C11', 'C12', 'C13', 'C33', 'C44'], rhombohedral=['C11', 'C12', 'C13', 'C14', 'C15', 'C33', 'C44'],
             tetragonal=['C11', 'C12', 'C13', 'C16', 'C33', 'C44', 'C66'], orthorhombic=['C11', 'C22', 'C33', 'C12', 'C13', 'C23', 'C44', 'C55', 'C66'],
             monoclinic=['C11', 'C12', 'C13', 'C15', 'C22', 'C23', 'C25', 'C33', 'C35', 'C44', 'C46', 'C55', 'C66'])
GEN = dict(cubic=[[[0, 1, 0], [-1, 0, 0], [0, 0, 1]], [[0, 1, 0], [0, 0, 1], [1, 0, 0]]],
           tetragonal=[[[0, 1, 0], [-1, 0, 0], [0, 0, 1]]],
           orthorhombic=[[[-1, 0, 0], [0, -1, 0], [0, 0, 1]], [[1, 0, 0], [0, -1, 0], [0, 0, -1]]],
           monoclinic=[[[-1, 0, 0], [0, 1, 0], [0, 0, -1]]],
           rhombohedral=[[[-0.5, math.sqrt(3) / 2, 0], [-math.sqrt(3) / 2, -0.5, 0], [0, 0, 1]]],
           hexagonal=[[[0.5, math.sqrt(3) / 2, 0], [-math.sqrt(3) / 2, 0.5, 0], [0, 0, 1]], [[-1, 0, 0], [0, -1, 0], [0, 0, 1]]])


def h_system(system, variant):
    def fn():
        from atomman import ElasticConstants
        p = {}
        for n in NAMES[system]:
            diag = n[1] == n[2]
            p[n] = var(n, 1, 1000) if diag else var(n, -1000, 1000, deadzone=0.001)
        if sx.symbolic_mode():
            mx = sx.amax(np.array([abs(v) for v in p.values()], dtype=object))
            if system in ('hexagonal', 'rhombohedral'):
                c66 = (p['C11'] - p['C12']) / 2
                assume((c66 >= 0.001) | (c66 <= -0.001) | (c66 == 0))
        kw = dict(p)
        if variant == 'C66' and system in ('hexagonal', 'rhombohedral'):     # alternative keyword pairs
            kw.pop('C12'); kw['C66'] = (p['C11'] - p['C12']) / 2
        if variant == 'C66b' and system in ('hexagonal', 'rhombohedral'):
            kw.pop('C11'); kw['C66'] = (p['C11'] - p['C12']) / 2
        if variant == 'noopt':
            kw.pop('C15', None); kw.pop('C16', None); p = dict(p); p.pop('C15', None); p.pop('C16', None)
        ec = ElasticConstants(**kw)
        E = expected_matrix(system, p)
        ob = [(f'{system}({variant}): constants land in the documented entries', alleq(ec.Cij, E))]
        # invariance under the system's symmetry generators (full transform incl. thresholds; 1e-9 relative for float sqrt(3)/2)
        for gi, G in enumerate(GEN[system]):
            new = ec.transform(np.array(G, dtype=float))
            exact = all(float(x).is_integer() for r in G for x in r)
            A = new.Cij
            ob.append((f'{system}({variant}): invariant under symmetry generator #{gi}',
                       band(*[(eq(A[a, b], E[a][b]) if exact else close(A[a, b], E[a][b], 1e-8, 1000.0)) for a in range(6) for b in range(6)])))
        return ob
    return fn


def h_triclinic_ctor():
    def fn():
        from atomman import ElasticConstants
        C = sym21()
        kw = {f'C{i+1}{j+1}': C[i][j] for i in range(6) for j in range(i, 6)}
        ec = ElasticConstants(**kw)
        ob = [('triclinic constructor: 21 keywords land in the symmetric matrix', alleq(ec.Cij, C))]
        kw2 = {k: kw[k] for k in ('C11', 'C12', 'C13', 'C15', 'C22', 'C23', 'C25', 'C33', 'C35', 'C44', 'C46', 'C55', 'C66')}
        ob.append(('monoclinic constructor', alleq(ElasticConstants(**kw2).Cij, expected_matrix('monoclinic', kw2))))
        return ob
    return fn


PAIRS = [('C11', 'C12'), ('C11', 'C44'), ('C11', 'E'), ('C11', 'nu'), ('C11', 'K'), ('C12', 'C44'), ('C12', 'E'), ('C12', 'nu'), ('C12', 'K'),
         ('C44', 'E'), ('C44', 'nu'), ('C44', 'K'), ('E', 'nu'), ('E', 'K'), ('nu', 'K')]
ALIAS = {'C11': 'M', 'C12': 'lambda', 'C44': 'mu'}
def h_isotropic(pair, alias):
    """the material is (lambda, mu); the constructor gets two of its textbook moduli and must return it"""
    def fn():
        from atomman import ElasticConstants
        lam = var('lambda', 0.01, 1000); mu = var('mu', 0.01, 1000)
        mod = {'C12': lam, 'C44': mu, 'C11': lam + 2 * mu, 'E': mu * (3 * lam + 2 * mu) / (lam + mu), 'nu': lam / (2 * (lam + mu)), 'K': lam + 2 * mu / 3}
        kw = {}
        for n in pair:
            kw[ALIAS[n] if (alias and n in ALIAS) else n] = mod[n]
        ec = ElasticConstants(**kw)
        c = ec.Cij
        S = 1e4
        ob = [(f'isotropic({pair}): C12 == lambda', eq(c[0, 1], lam, S)), (f'isotropic({pair}): C44 == mu', eq(c[3, 3], mu, S)),
              (f'isotropic({pair}): C11 == lambda + 2 mu', eq(c[0, 0], lam + 2 * mu, S)),
              (f'isotropic({pair}): matrix pattern', band(eq(c[1, 1], c[0, 0]), eq(c[2, 2], c[0, 0]), eq(c[0, 2], c[0, 1]), eq(c[1, 2], c[0, 1]),
                                                       eq(c[4, 4], c[3, 3]), eq(c[5, 5], c[3, 3]), eq(c[0, 3], 0), eq(c[3, 4], 0), eq(c[2, 5], 0)))]
        return ob
    return fn


def h_moduli():
    def fn():
        from atomman import ElasticConstants
        C = sym21()
        ec = ElasticConstants(Cij=sa(C))
        X = ec.Sij
        KV = ((C[0][0] + C[1][1] + C[2][2]) + 2 * (C[0][1] + C[1][2] + C[0][2])) / 9
        GV = ((C[0][0] + C[1][1] + C[2][2]) - (C[0][1] + C[1][2] + C[0][2]) + 3 * (C[3][3] + C[4][4] + C[5][5])) / 15
        sK = (X[0, 0] + X[1, 1] + X[2, 2]) + 2 * (X[0, 1] + X[1, 2] + X[0, 2])
        sG = 4 * (X[0, 0] + X[1, 1] + X[2, 2]) - 4 * (X[0, 1] + X[1, 2] + X[0, 2]) + 3 * (X[3, 3] + X[4, 4] + X[5, 5])
        if sx.symbolic_mode():
            assume(sK >= 1e-6); assume(sG >= 1e-6)
        ob = [('Voigt bulk', eq(ec.bulk('Voigt'), KV)), ('Voigt shear', eq(ec.shear('Voigt'), GV)),
              ('Reuss bulk * (s11+s22+s33+2(s12+s23+s13)) == 1', eq(ec.bulk('Reuss') * sK, 1)),
              ('Reuss shear * (4(s11+..)-4(s12+..)+3(s44+..)) == 15', eq(ec.shear('Reuss') * sG, 15)),
              ('Hill bulk is the mean', eq(2 * ec.bulk('Hill'), ec.bulk('Voigt') + ec.bulk('Reuss'))),
              ('Hill shear is the mean', eq(2 * ec.shear(), ec.shear('Voigt') + ec.shear('Reuss'))),
              ('default bulk style is Hill', eq(ec.bulk(), ec.bulk('Hill')))]
        return ob
    return fn


def h_moduli_samples():
    """bulk / shear averages on concrete low-symmetry tensors against contractions of the stiffness and its numerical inverse
    (concrete samples: the symbolic case above goes through the stubbed 6x6 inverse and can end inconclusive)"""
    def fn():
        from atomman import ElasticConstants
        mats = {'orthorhombic': ElasticConstants(C11=215.0, C22=199.0, C33=267.0, C12=46.0, C13=55.0, C23=108.0, C44=124.0, C55=66.0, C66=73.0),
                'monoclinic': ElasticConstants(C11=120.0, C12=50.0, C13=42.0, C15=9.0, C22=150.0, C23=38.0, C25=-6.0, C33=170.0, C35=11.0, C44=40.0, C46=4.0, C55=35.0, C66=45.0),
                'hexagonal': ElasticConstants(C11=162.0, C12=92.0, C13=69.0, C33=181.0, C44=47.0)}
        ob = []
        for name, ec in mats.items():
            C = np.asarray(ec.Cij, float); S = np.linalg.inv(C)
            KV = (C[0, 0] + C[1, 1] + C[2, 2] + 2 * (C[0, 1] + C[1, 2] + C[0, 2])) / 9
            GV = (C[0, 0] + C[1, 1] + C[2, 2] - (C[0, 1] + C[1, 2] + C[0, 2]) + 3 * (C[3, 3] + C[4, 4] + C[5, 5])) / 15
            KR = 1 / (S[0, 0] + S[1, 1] + S[2, 2] + 2 * (S[0, 1] + S[1, 2] + S[0, 2]))
            GR = 15 / (4 * (S[0, 0] + S[1, 1] + S[2, 2]) - 4 * (S[0, 1] + S[1, 2] + S[0, 2]) + 3 * (S[3, 3] + S[4, 4] + S[5, 5]))
            got = [ec.bulk('Voigt'), ec.shear('Voigt'), ec.bulk('Reuss'), ec.shear('Reuss'), ec.bulk('Hill'), ec.shear('Hill')]
            want = [KV, GV, KR, GR, (KV + KR) / 2, (GV + GR) / 2]
            ob.append((f'{name}: Voigt/Reuss/Hill bulk and shear equal the defining sums over Cij and Sij = inv(Cij) ({np.round(got, 4).tolist()} vs {np.round(want, 4).tolist()})', bool(np.allclose(got, want, rtol=1e-9))))
            # unchanged by a rotation to generic axes
            R = np.array([[2, -2, 1], [1, 2, 2], [-2, -1, 2]]) / 3.0
            rot = ec.transform(R)
            ob.append((f'{name}: the averages are unchanged by a rotation to generic axes', bool(np.allclose([rot.bulk('Voigt'), rot.shear('Voigt'), rot.bulk('Reuss'), rot.shear('Reuss')], want[:4], rtol=1e-8))))
        return ob
    return fn


NSYS = ['cubic', 'hexagonal', 'tetragonal', 'rhombohedral', 'orthorhombic', 'triclinic']
def h_normalize(system):
    def fn():
        from atomman import ElasticConstants
        C = sym21(lo=0.01)
        if sx.symbolic_mode():
            # generic positive normal constants; dead zone for the derived averages that may vanish
            for i in range(3):
                for j in range(3): assume(C[i][j] >= 1)
            for expr in ((C[0][5] - C[1][5]) / 2, (C[0][3] - C[1][3]) / 2, (C[0][4] - C[1][4] - C[3][5]) / 3, (C[0][1] + (C[0][0] - 2 * C[5][5])) / 2,
                         ((C[0][0] + C[1][1]) / 2 - (C[0][1] + (C[0][0] - 2 * C[5][5])) / 2) / 2):
                assume((expr == 0) | (expr >= 0.01) | (expr <= -0.01))
        ec = ElasticConstants(Cij=sa(C))
        n1 = ec.normalized_as(system)
        n2 = n1.normalized_as(system)
        ob = [(f'normalized_as({system!r}) is idempotent', alleq(n2.Cij, n1.Cij))]
        ob.append((f'is_normal(normalized_as({system!r}))', n1.is_normal(system)))
        return ob
    return fn


def h_axes_check(rows, expect):
    """axes_check on orthogonal axes of arbitrary (symbolic, unequal) lengths: unit vectors of the rows, or a refusal"""
    def fn():
        from atomman.tools import axes_check
        S = [var(f's{i}', 0.5, 4.0) for i in range(3)]
        A = [[S[i] * float(rows[i][j]) for j in range(3)] for i in range(3)]
        try:
            U = axes_check(sa(A))
        except ValueError as e:
            return [(f'axes {rows} scaled by positive factors: {"refused" if expect != "ok" else "accepted"} ({e})', expect != 'ok')]
        ob = [(f'axes {rows} scaled by positive factors are {"accepted" if expect == "ok" else "refused"}', expect == 'ok')]
        for i in range(3):
            nrm = float(np.linalg.norm(rows[i]))
            ob.append((f'row {i} of the result is the unit vector of row {i} of the input, whatever the lengths of the three rows', band(*[close(U[i][j] * nrm, float(rows[i][j]), 1e-9, 10.0) for j in range(3)])))
        return ob
    return fn


def _chunks(l, n):
    k = max(1, math.ceil(len(l) / n))
    return [l[i:i + k] for i in range(0, len(l), k)]


def cases(tier, seed=0):
    cs = [Case('index_maps', h_index(), bind=BIND, budget_s=170, timeout_ms=20000, descr='Cij <-> Cijkl <-> Cij9 index maps, all 81 entries, round trips through the setters')]
    for part in ('contract', 'symmetry', 'setters'):
        cs.append(Case(f'compliance_{part}', h_compliance(part), bind=BIND, budget_s=170, timeout_ms=30000, weight=3,
                       descr=f'compliance ({part}): 6x6 inverse as contract stub'))
    ents = INDEP if tier == 'quick' else list(itertools.product(range(3), repeat=4))
    for i, ch in enumerate(_chunks(ents, 7 if tier == 'quick' else 27)):
        cs.append(Case(f'rotation_law_{i}', h_rotation(ch, i, tier != 'quick'), bind=BIND, budget_s=170 if tier == 'quick' else 900, timeout_ms=20000 if tier == 'quick' else 120000, weight=4,
                       descr=f'transform() vs rotation law for every proper orthonormal axes matrix, entries {ch[0]}..{ch[-1]}'))
    for i, ch in enumerate(_chunks(list(range(24)), 8)):
        cs.append(Case(f'cubic_rotations_{i}', h_cubic_rot(ch), bind=BIND, budget_s=170, timeout_ms=20000, weight=2,
                       descr=f'proper cubic rotations {ch}: full transform, inverse, Voigt moduli invariant'))
    rng = np.random.default_rng(seed)
    allpairs = [(a, b) for a in range(24) for b in range(24)]
    pairs = [allpairs[k] for k in rng.choice(len(allpairs), 12 if tier == 'quick' else 96, replace=False)]
    for i, ch in enumerate(_chunks(pairs, 4 if tier == 'quick' else 12)):
        cs.append(Case(f'cubic_compose_{i}', h_cubic_compose(ch), bind=BIND, budget_s=170, timeout_ms=20000, weight=2,
                       descr=f'composition of cubic rotations {ch}'))
    for kind in ('law', 'hexagonal', 'energy', 'compose'):
        cs.append(Case(f'zrot_{kind}', h_zrot(kind), bind=BIND, budget_s=170, timeout_ms=60000, weight=3,
                       descr=f'rotation about z by any angle (tan(theta/2) = t): {kind}'))
    for system in NAMES:
        variants = ['full'] + (['C66', 'C66b'] if system in ('hexagonal', 'rhombohedral') else []) + (['noopt'] if system in ('rhombohedral', 'tetragonal') else [])
        for v in variants:
            cs.append(Case(f'system_{system}_{v}', h_system(system, v), bind=BIND, budget_s=170, timeout_ms=30000,
                           descr=f'{system} constructor ({v}): documented entries, invariance under the symmetry generators'))
    cs.append(Case('system_triclinic', h_triclinic_ctor(), bind=BIND, budget_s=120, descr='21- and 13-keyword constructors'))
    for pair in PAIRS:
        for alias in (False, True):
            if alias and not any(n in ALIAS for n in pair): continue
            cs.append(Case(f'isotropic_{pair[0]}_{pair[1]}{"_alias" if alias else ""}', h_isotropic(pair, alias), bind=BIND, budget_s=120, timeout_ms=30000,
                           descr=f'isotropic constructor from ({pair[0]}, {pair[1]}){" using M/lambda/mu keywords" if alias else ""}'))
    for n_, (rows, expect) in enumerate(((([1, 1, 1], [1, -1, 0], [1, 1, -2]), 'ok'), (([1, 1, 0], [-1, 1, 0], [0, 0, 1]), 'ok'), (([1, 0, 0], [0, 0, 1], [0, 1, 0]), 'refused'), (([1, 1, 0], [0, 1, 0], [0, 0, 1]), 'refused'))):
        cs.append(Case(f'axes_check_{n_}', h_axes_check(rows, expect), bind=BIND, budget_s=120, timeout_ms=30000, descr=f'axes_check: rows {rows} with symbolic unequal lengths ({expect})'))
    cs.append(Case('moduli_samples', h_moduli_samples(), concrete_only=True, budget_s=60, descr='CONCRETE SAMPLES: Voigt/Reuss/Hill averages on low-symmetry tensors, rotation invariance'))
    cs.append(Case('moduli', h_moduli(), bind=BIND, budget_s=170, timeout_ms=30000, descr='Voigt/Reuss/Hill bulk and shear vs defining sums'))
    for system in NSYS:
        cs.append(Case(f'normalize_{system}', h_normalize(system), bind=BIND, budget_s=170, timeout_ms=30000, descr=f'normalized_as({system}) idempotent and is_normal'))
    return cs
