# C05 Wrapping and normalising move atoms only by lattice vectors or a rotation
import itertools, math
import numpy as np
from vlib.run import Case
from symx import core as sx
from symx.core import var, assume, eq, le, lt, sa, band, bor, alleq, close
from props.c01 import lammps_cell, origin, expect_vects

META = dict(
    explanation='System.wrap (with box_set, atoms_prop, the Box coordinate maps) is executed on a symbolic LAMMPS-form cell with symbolic origin and atoms anywhere in space, for all 8 periodicity settings; lammps.normalize is executed on a table of concrete cells (left-handed, strongly tilted, rotated, non-zero origin) with symbolic atom positions and a symbolic extra per-atom property.',
    functions=['atomman/core/System.py:System.wrap,box_set,atoms_prop', 'atomman/lammps/normalize.py:normalize', 'atomman/core/Box.py:set/set_abc/getters/position_*',
               'atomman/core/Atoms.py:Atoms.__init__/prop/view'],
    bounds=dict(quick='wrap: all LAMMPS-form cells with lengths in [1,10], tilts 0 or 1e-3..10, origin within +-10, 2 atoms anywhere within +-50 (so that the 1e-9 clean-up of the stretched cell cannot touch a component), 8 pbc settings, one extra per-atom property; normalize: 6 concrete cells x 2 symbolic atoms anywhere',
                thorough='wrap with 3 atoms; normalize on 12 cells incl. random rotations (seeded)'),
    outside=['IEEE-754 rounding (in particular s - floor(s) reaching 1.0 in binary64)', 'normalize on symbolic cells (set_abc o getters composed with a least-squares solve)',
             'nearest-image distances unchanged by normalize: follows from pos\' = R pos + lattice vector (asserted) and C02'],
    lemmas=[], cuts=[],
    assumptions=['dead-zone assumption on tilts (see C01)', 'normalize: np.linalg.lstsq runs concretely (concrete cells)'],
    trusted=[],
)
BIND = ['atomman.core.Box', 'atomman.core.System', 'atomman.core.Atoms', 'atomman.tools.vect_angle', 'atomman.lammps.normalize']
PBCS = list(itertools.product([True, False], repeat=3))
def pstr(p): return ''.join('T' if x else 'F' for x in p)


def rel(V, O, p):
    """harness-side relative coordinates by Cramer's rule, as numerators and the common denominator det V"""
    d = sx.det3(V)
    q = [p[j] - O[j] for j in range(3)]
    out = []
    for i in range(3):
        M = [list(r) for r in V]; M[i] = q
        out.append(sx.det3(M))
    return out, d


def small_cell():
    """cells and atoms bounded so that the near-zero clean-up of Box.vects (1e-9 of the largest component) cannot touch a
    component even after a non-periodic direction has been stretched to contain the atoms"""
    lx, ly, lz = [var(n, 1, 10) for n in ('lx', 'ly', 'lz')]
    xy, xz, yz = [var(n, -10, 10, deadzone=0.001) for n in ('xy', 'xz', 'yz')]
    O = [var(n, -10, 10) for n in ('ox', 'oy', 'oz')]
    return lx, ly, lz, xy, xz, yz, O


def h_wrap(pbc, natoms):
    def fn():
        import atomman as am
        lx, ly, lz, xy, xz, yz, O = small_cell(); V = expect_vects(lx, ly, lz, xy, xz, yz)
        box = am.Box(lx=lx, ly=ly, lz=lz, xy=xy, xz=xz, yz=yz, origin=O)
        P = [[var(f'p{k}{"xyz"[i]}', -50, 50) for i in range(3)] for k in range(natoms)]
        extra = [var(f'e{k}', -10, 10) for k in range(natoms)]
        s = am.System(atoms=am.Atoms(pos=sa(P), atype=list(range(1, natoms + 1)), stuff=sa(extra)), box=box, pbc=pbc)
        flags = s.wrap(return_imageflags=True)
        ob = [('image flags: one integer triple per atom', np.shape(flags) == (natoms, 3))]
        if np.shape(flags) != (natoms, 3): return ob
        newpos = s.atoms.pos; nV = s.box.vects; nO = s.box.origin
        for k in range(natoms):
            for j in range(3):
                ob.append((f'atom {k}: old position == new position + flags . old cell vectors [{j}]',
                           eq(P[k][j], newpos[k, j] + sum(flags[k, i] * V[i][j] for i in range(3)), 1e4)))
            for i in range(3):
                f = flags[k, i]
                if not pbc[i]:
                    ob.append((f'atom {k}: no shift along non-periodic direction {i}', eq(f, 0)))
                if sx.is_sym(f):
                    ob.append((f'atom {k}: flag {i} is an integer', bool(f.is_int) or eq(f, f.floor())))
                else:
                    ob.append((f'atom {k}: flag {i} is an integer', float(f).is_integer()))
            num, den = rel([[nV[i][j] for j in range(3)] for i in range(3)], [nO[j] for j in range(3)], [newpos[k, j] for j in range(3)])
            if k == 0: ob.append(('new cell right-handed (det > 0)', lt(0, den)))
            S = 1e5
            for i in range(3):
                if pbc[i]:
                    ob.append((f'atom {k}: inside along periodic direction {i} (0 <= s < 1, cross-multiplied by det > 0)', band(le(0, num[i], S), lt(num[i], den, S))))
                else:
                    ob.append((f'atom {k}: inside the enlarged cell along non-periodic direction {i}', band(le(0, num[i], S), le(num[i], den, S))))
        for i in range(3):
            if pbc[i]:
                ob.append((f'cell vector {i} unchanged (periodic)', band(*[eq(nV[i][j], V[i][j]) for j in range(3)])))
            else:
                # parallel to the old one and not shorter
                cr = [nV[i][1] * V[i][2] - nV[i][2] * V[i][1], nV[i][2] * V[i][0] - nV[i][0] * V[i][2], nV[i][0] * V[i][1] - nV[i][1] * V[i][0]]
                ob.append((f'cell vector {i} (non-periodic) only stretched', band(*[eq(c, 0, 1e4) for c in cr], le(sum(V[i][j] * V[i][j] for j in range(3)), sum(nV[i][j] * V[i][j] for j in range(3)), 1e4))))
        ob.append(('other per-atom properties untouched', band(alleq(s.atoms.stuff, extra), [int(t) for t in s.atoms.atype] == list(range(1, natoms + 1)))))
        ob.append(('pbc untouched', tuple(bool(x) for x in s.pbc) == tuple(pbc)))
        return ob
    return fn


def h_wrap_selfconsistent():
    """concrete samples: after wrap() the system's own cell (including whatever it caches, e.g. reciprocal vectors) agrees with
    the cell vectors and origin it shows, and wrapping again changes nothing.  (As symbolic obligations these rational identities cost
    ~35 unknown answers per run; staleness of a cache does not depend on the values.)"""
    def fn():
        import atomman as am
        ob = []
        for name, box, pbc in (('triclinic TTF', am.Box(lx=3.0, ly=2.5, lz=2.0, xy=0.7, xz=-0.4, yz=0.3, origin=[0.1, 0.2, -0.3]), (True, True, False)),
                               ('orthorhombic FTF', am.Box.orthorhombic(3.0, 4.0, 5.0), (False, True, False)), ('triclinic TTT', am.Box(lx=3.0, ly=2.5, lz=2.0, xy=0.7, xz=-0.4, yz=0.3), (True, True, True))):
            pos = np.array([[0.5, 0.4, -1.3], [7.9, -3.1, 4.4], [1.0, 1.0, 1.0], [-2.2, 6.0, 0.7]])
            s = am.System(atoms=am.Atoms(pos=pos.copy()), box=box, pbc=pbc)
            s.atoms_prop('pos', scale=True)                 # a scaled-position query before wrapping (fills any cache)
            s.wrap()
            V = np.array(s.box.vects, float); O = np.array(s.box.origin, float)
            sp = s.atoms_prop('pos', scale=True)
            want = (np.array(s.atoms.pos, float) - O).dot(np.linalg.inv(V))
            ok = np.allclose(sp, want, atol=1e-9) and bool(np.all(sp >= -1e-9) and np.all(sp <= 1 + 1e-9)) and bool(np.all(s.box.inside(s.atoms.pos, inclusive=True) | np.isclose(sp, 0).any(axis=1) | np.isclose(sp, 1).any(axis=1)))
            before = np.array(s.atoms.pos, float).copy(); Vb = V.copy()
            s.wrap()
            ok = ok and np.allclose(np.array(s.atoms.pos, float), before, atol=1e-9) and np.allclose(np.array(s.box.vects, float), Vb, atol=1e-9)
            ob.append((f'{name}: after wrap() the system\'s own box-relative coordinates agree with its cell vectors and origin, lie in [0,1], and a second wrap() changes nothing', bool(ok)))
        return ob
    return fn


def rotmat(axis, deg):
    a = np.array(axis, float); a /= np.linalg.norm(a); t = math.radians(deg)
    K = np.array([[0, -a[2], a[1]], [a[2], 0, -a[0]], [-a[1], a[0], 0]])
    return np.eye(3) + math.sin(t) * K + (1 - math.cos(t)) * K.dot(K)


def cells(tier, seed):
    base = np.array([[3.0, 0, 0], [0.7, 2.5, 0], [-0.4, 0.3, 2.0]])
    out = [('lammps_tilted', base, [0.0, 0.0, 0.0]),
           ('origin', base, [1.5, -2.0, 0.7]),
           ('left_handed', base * np.array([[1], [1], [-1]]), [0.3, 0.1, -0.2]),
           ('rotated', base.dot(rotmat([1, 2, 3], 40).T), [0.0, 1.0, 0.0]),
           ('strong_tilt', np.array([[2.0, 0, 0], [1.9, 2.2, 0], [-1.7, 2.0, 1.8]]), [0, 0, 0]),
           ('left_rotated', (base * np.array([[1], [-1], [1]])).dot(rotmat([0, 1, 1], 110).T), [-1.0, 0.5, 2.0])]
    if tier == 'thorough':
        rng = np.random.default_rng(seed)
        for k in range(6):
            M = rng.uniform(-1, 1, (3, 3)) + np.eye(3) * 2
            out.append((f'random{k}', M.dot(rotmat(rng.uniform(-1, 1, 3), rng.uniform(0, 180)).T), list(rng.uniform(-2, 2, 3))))
    return out


def h_normalize(name, vects, org, natoms=2):
    vects = np.array(vects, float); org = np.array(org, float)
    def fn():
        import atomman as am
        from atomman.lammps import normalize
        box = am.Box(vects=vects, origin=org)
        P = [[var(f'p{k}{"xyz"[i]}', -1000, 1000) for i in range(3)] for k in range(natoms)]
        extra = [var(f'e{k}', -10, 10) for k in range(natoms)]
        s = am.System(atoms=am.Atoms(pos=sa(P), atype=list(range(1, natoms + 1)), stuff=sa(extra)), box=box, pbc=(True, True, True), symbols=['Al', 'Cu'][:natoms])
        nfl0 = len(getattr(sx.ctx(), 'floor_list', [])) if sx.symbolic_mode() else 0
        new, T = normalize(s, return_transform=True)
        # the code's own image counts (one auxiliary integer per atom and direction, in creation order: direction-major)
        fl = getattr(sx.ctx(), 'floor_list', [])[nfl0:] if sx.symbolic_mode() else []
        T = np.asarray(T, dtype=float)
        nb = new.box; nV = np.asarray(nb.vects, dtype=float); nO = np.asarray(nb.origin, dtype=float)
        lh = np.linalg.det(vects) < 0
        fv = vects.copy(); fo = org.copy()
        if lh: fo = fo + fv[2]; fv[2] = -fv[2]          # documented: a left-handed cell first has its third vector reversed
        fb = am.Box(vects=fv, origin=fo)
        tol = 1e-9
        ob = [('result is LAMMPS compatible', bool(nb.is_lammps_norm())), ('right-handed', np.linalg.det(nV) > 0),
              ('lengths, angles, volume preserved', all(abs(x - y) < 1e-9 * max(1, abs(y)) for x, y in zip((nb.a, nb.b, nb.c, nb.alpha, nb.beta, nb.gamma, nb.volume), (fb.a, fb.b, fb.c, fb.alpha, fb.beta, fb.gamma, abs(np.linalg.det(vects)))))),
              ('returned transformation is a proper rotation', np.allclose(T.dot(T.T), np.eye(3), atol=1e-9) and abs(np.linalg.det(T) - 1) < 1e-9),
              ('new cell vectors are the rotated (c-flipped) old ones', np.allclose(nV, fv.dot(T.T), atol=1e-9))]
        # atoms: pos' = T (pos - o_f) + o' - sum n_i v'_i  with integers n_i, and inside
        newpos = new.atoms.pos
        inv_f = np.linalg.inv(fv); inv_n = np.linalg.inv(nV)
        for k in range(natoms):
            s_old = [sum((P[k][j] - fo[j]) * inv_f[j, i] for j in range(3)) for i in range(3)]
            s_new = [sum((newpos[k, j] - nO[j]) * inv_n[j, i] for j in range(3)) for i in range(3)]
            for i in range(3):
                d = s_old[i] - s_new[i]
                if sx.is_sym(d):
                    if len(fl) != 3 * natoms:
                        ob.append(('one integer image count per atom and direction', False)); continue
                    n = fl[i * natoms + k]        # integer witness: relative coordinate differs from the rotated one by n (to 1e-9)
                    ob.append((f'atom {k}: moved by the rotation plus a whole lattice vector (direction {i})', close(d, n, 1e-9)))
                    ob.append((f'atom {k}: inside the new cell (direction {i})', band(s_new[i] >= -1e-9, s_new[i] < 1 + 1e-9)))
                else:
                    ob.append((f'atom {k}: moved by the rotation plus a whole lattice vector (direction {i})', abs(d - round(d)) < 1e-6))
                    ob.append((f'atom {k}: inside the new cell (direction {i})', -1e-6 <= s_new[i] <= 1 + 1e-6))
        ob.append(('per-atom properties, types, symbols, pbc carried over', band(alleq(new.atoms.stuff, extra), [int(t) for t in new.atoms.atype] == list(range(1, natoms + 1)),
                                                                            tuple(new.symbols) == tuple(s.symbols), tuple(bool(x) for x in new.pbc) == (True, True, True))))
        # the input system is left as it was (aliasing is executed for real)
        ob.append(('input system unchanged', band(alleq(s.atoms.pos, P), alleq(s.atoms.stuff, extra), np.allclose(np.asarray(s.box.vects, dtype=float), vects), np.allclose(np.asarray(s.box.origin, dtype=float), org))))
        plain = normalize(s)
        ob.append(('normalize(s) without return_transform gives the same system', band(alleq(plain.atoms.pos, newpos), np.allclose(np.asarray(plain.box.vects, dtype=float), nV))))
        return ob
    return fn


def cases(tier, seed=0):
    cs = [Case('wrap_selfconsistent', h_wrap_selfconsistent(), concrete_only=True, budget_s=60, descr='CONCRETE SAMPLES: the wrapped system is self-consistent (cached cell quantities), second wrap is the identity')]
    for pbc in PBCS:
        cs.append(Case(f'wrap_{pstr(pbc)}', h_wrap(pbc, 2 if tier == 'quick' else 3), bind=BIND, budget_s=170 if tier == 'quick' else 900, timeout_ms=20000, max_paths=600,
                       weight=2 + 3 - sum(pbc), descr=f'System.wrap, pbc {pstr(pbc)}, symbolic cell/origin/atoms'))
    for name, v, o in cells(tier, seed):
        cs.append(Case(f'normalize_{name}', h_normalize(name, v, o), bind=BIND, budget_s=170, timeout_ms=20000, max_paths=400,
                       descr=f'lammps.normalize on cell {name} with symbolic atoms'))
    return cs
