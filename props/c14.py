# C14 Surface and stacking-fault cells cut the right plane, between atomic layers
import ast, inspect, itertools, math, textwrap
from fractions import Fraction
import numpy as np
from vlib.run import Case
from symx import core as sx
from symx.core import var, assume, eq, le, lt, sa, band, bor, bnot, alleq, close, implies
from props.c01 import expect_vects

META = dict(
    explanation='(i) the first stage of free_surface_basis (everything before its two search loops; cut out of the current source through the AST on every run) is executed for every integer plane within the index bound on a fully SYMBOLIC LAMMPS-form cell (lx,ly,lz,xy,xz,yz): the two lcm-constructed in-plane vectors obey the zone law and the plane normal is a positive rational multiple of h b x c + k c x a + l a x b as a polynomial identity in the cell. '
                '(ii) StackingFault.fault and the faultpos setters are executed on concrete fault cells (fcc (111), bcc (110), hcp basal (0001); built by the real FreeSurface machinery) with SYMBOLIC fractional shifts a1, a2, out-of-plane shift, fault-plane position and Cartesian faultshift: atoms at or below the fault plane stay, atoms above move by exactly the requested vector modulo the periodic in-plane cell vectors, nothing leaves the periodic cell, and an integer number of full shift vectors lands every moved atom on a site of the unshifted crystal with the same type. '
                'The complete free_surface_basis (with its search loops), the FreeSurface assembly and the termination shifts are NOT solver-decided: two concrete-only sample cases execute them on one cell per crystal family and are reported as samples.',
    functions=['atomman/defect/free_surface_basis.py:free_surface_basis', 'atomman/defect/StackingFault.py:fault,faultpos_rel,faultpos_cart,a1vect_uvw,a2vect_uvw', 'atomman/defect/FreeSurface.py:__init__,surface,shifts (concrete construction)',
               'atomman/tools/miller.py:vector_crystal_to_cartesian,plane4to3', 'atomman/core/System.py:wrap', 'atomman/core/Box.py'],
    bounds=dict(quick='(i) all 728 planes with |h|,|k|,|l| <= 4, cell lengths in [1,10], tilts in [-5,5]; 4-index planes |h|,|k|,|l| <= 2 in a hexagonal cell with symbolic a, c. (ii) three fault cells (minimal sizemults, 6-24 atoms), a1, a2 in [-1.25, 1.25], outofplane in [-0.5, 2] angstrom, faultpos across the two middle layer gaps, integer full shifts n1, n2 in [-2, 2]; cutboxvector a, b and c',
                thorough='(i) |h|,|k|,|l| <= 7 (3374 planes). (ii) same'),
    outside=['the two search loops of free_surface_basis on a general cell (every candidate forks on magnitude / angle comparisons); with a one-parameter (scaled) cell the 64-1000 candidates need ~270 nonlinear queries with arccos comparisons (measured: 264 s, 11 unknown for one plane) and would only establish scale invariance; sampled concretely instead',
             'FreeSurface.surface assembly (rotate / supersize / vacuum: see C04) and the termination shifts for symbolic cells: executed concretely when the fault cells of (ii) are built; the shifts clause is decided on those concrete cells only',
             'minimum_r adjustment of fault()', 'IEEE-754 rounding'],
    lemmas=['numpy.lcm returns a positive common multiple (executed concretely)'],
    cuts=['free_surface_basis is cut before its nested gen_vector definition (AST, regenerated from the current source each run)'],
    assumptions=['right-handed LAMMPS-form cell with lengths in [1,10] and tilts in [-5,5]'], trusted=[],
)
BIND = ['atomman.core.Box', 'atomman.core.System', 'atomman.core.Atoms', 'atomman.defect.free_surface_basis', 'atomman.defect.FreeSurface', 'atomman.defect.StackingFault', 'atomman.tools.miller', 'atomman.tools.vect_angle']
KER = ['dvect', 'dmag']


# ---------------------------------------------------------------- (i) first stage, cut from the source
_STAGE = {}
def first_stage():
    """free_surface_basis up to (not including) its search loops, recompiled from the module's current source in the
    module's own globals (so the rebinding of np applies)"""
    import sys
    mod = sys.modules['atomman.defect.free_surface_basis']
    key = id(getattr(mod, 'np', None))
    if key in _STAGE: return _STAGE[key]
    src = inspect.getsource(mod)
    tree = ast.parse(src)
    fdef = next(n for n in tree.body if isinstance(n, ast.FunctionDef) and n.name == 'free_surface_basis')
    cut = next((i for i, n in enumerate(fdef.body) if isinstance(n, ast.FunctionDef)), None)
    if cut is None:
        cut = next(i for i, n in enumerate(fdef.body) if isinstance(n, ast.For))
    # keep statements up to the cut; the assignment of planenormal must be among them
    body = fdef.body[:cut]
    names = {t.id for n in body for s in ast.walk(n) if isinstance(s, ast.Assign) for t in s.targets if isinstance(t, ast.Name)}
    if 'planenormal' not in names:
        raise RuntimeError('free_surface_basis: planenormal is not computed before the search loops any more')
    ret = ast.parse('return a_uvw, b_uvw, planenormal, hkl').body[0]
    fdef.body = body + [ret]
    fdef.name = '_first_stage'
    fdef.returns = None
    m = ast.Module(body=[fdef], type_ignores=[])
    ast.fix_missing_locations(m)
    ns = {}
    exec(compile(m, '/repo/atomman/defect/free_surface_basis.py<translated>', 'exec'), mod.__dict__, ns)
    _STAGE[key] = ns['_first_stage']
    return _STAGE[key]


def sym_cell():
    import atomman as am
    lx, ly, lz = [var(n, 1, 10) for n in ('lx', 'ly', 'lz')]
    xy, xz, yz = [var(n, -5, 5, deadzone=0.001) for n in ('xy', 'xz', 'yz')]
    return am.Box(lx=lx, ly=ly, lz=lz, xy=xy, xz=xz, yz=yz), expect_vects(lx, ly, lz, xy, xz, yz)


def cross(u, v):
    return [u[1] * v[2] - u[2] * v[1], u[2] * v[0] - u[0] * v[2], u[0] * v[1] - u[1] * v[0]]


def recip_dir(V, hkl):
    """h b x c + k c x a + l a x b (the reciprocal-lattice vector times the cell volume)"""
    a, b, c = V
    bc, ca, ab = cross(b, c), cross(c, a), cross(a, b)
    return [hkl[0] * bc[j] + hkl[1] * ca[j] + hkl[2] * ab[j] for j in range(3)]


SAMPLE = dict(lx=2.0, ly=3.0, lz=5.0, xy=0.5, xz=-0.75, yz=1.25, a=3.0, c=15.0)
def value_at_sample(x):
    """numeric value of a symbolic expression at the fixed sample cell (only used to pick the rational factor the
    solver is then asked to confirm for ALL cells); auxiliary square-root variables are evaluated through their
    defining axioms"""
    if not sx.is_sym(x): return float(x)
    import z3
    c = sx.ctx()
    key = len(c.axioms)
    st = getattr(c, '_c14_sample', None)
    if st is None or st[0] != key:
        s = z3.Solver()
        s.add(*c.axioms)
        for n, v in SAMPLE.items(): s.add(z3.Real(n) == z3.RealVal(str(Fraction(v))))
        if s.check() != z3.sat: raise RuntimeError('sample cell infeasible')
        st = (key, s.model()); c._c14_sample = st
    r = st[1].eval(x.t, model_completion=True)
    if z3.is_rational_value(r): return float(Fraction(r.numerator_as_long(), r.denominator_as_long()))
    if z3.is_algebraic_value(r): return float(r.approx(15).as_fraction())
    raise RuntimeError(f'cannot evaluate {r}')


def normal_obligations(tag, N, G, ob):
    """N is a positive multiple of G: pick lam from the sample cell, let the solver confirm N == lam G identically"""
    gs = [value_at_sample(g) for g in G]; ns = [value_at_sample(n) for n in N]
    j = int(np.argmax(np.abs(gs)))
    lam = Fraction(ns[j] / gs[j]).limit_denominator(10000)
    ob.append((f'{tag}: plane normal points to the same side as the reciprocal-lattice vector', lam > 0))
    for k in range(3):
        ob.append((f'{tag}: plane normal component {k} == {lam} x (h b x c + k c x a + l a x b)', eq(N[k] * lam.denominator, G[k] * lam.numerator, 1e4)))


def h_stage(planes):
    def fn():
        stage = first_stage()
        box, V = sym_cell()
        ob = []
        for hkl in planes:
            a_uvw, b_uvw, N, hk = stage(list(hkl), box)
            tag = f'({hkl[0]} {hkl[1]} {hkl[2]})'
            au = [int(x) for x in a_uvw]; bu = [int(x) for x in b_uvw]
            ob.append((f'{tag}: constructed in-plane vectors are integer, non-zero and obey the zone law', bool(np.all(np.asarray(a_uvw) == au) and np.all(np.asarray(b_uvw) == bu) and any(au) and any(bu)
                                                                                                           and sum(h * u for h, u in zip(hkl, au)) == 0 and sum(h * u for h, u in zip(hkl, bu)) == 0)))
            ob.append((f'{tag}: the two in-plane vectors are independent', any(cross(au, bu))))
            normal_obligations(tag, [N[0], N[1], N[2]], recip_dir(V, hkl), ob)
        return ob
    return fn


def h_stage_hex(planes):
    """4-index planes in a hexagonal cell"""
    def fn():
        import atomman as am
        stage = first_stage()
        a = var('a', 1, 10); c = var('c', 11, 20)
        box = am.Box.hexagonal(a, c)
        V = [[a, 0, 0], [-a / 2, a * (3 ** 0.5) / 2, 0], [0, 0, c]]
        ob = []
        for hkl in planes:
            h, k, l = hkl
            four = [h, k, -(h + k), l]
            a_uvw, b_uvw, N, hk = stage(four, box)
            tag = f'({h} {k} {-(h + k)} {l})'
            ob.append((f'{tag}: converted to the 3-index plane (h k l)', [int(x) for x in hk] == [h, k, l]))
            au = [int(x) for x in a_uvw]; bu = [int(x) for x in b_uvw]
            ob.append((f'{tag}: zone law', sum(x * u for x, u in zip(hkl, au)) == 0 and sum(x * u for x, u in zip(hkl, bu)) == 0 and any(cross(au, bu))))
            G = recip_dir(V, hkl)
            gs = [value_at_sample(g) for g in G]; ns = [value_at_sample(n) for n in N]
            j = int(np.argmax(np.abs(gs)))
            lam = Fraction(ns[j] / gs[j]).limit_denominator(10000)
            ob.append((f'{tag}: normal on the side of the reciprocal-lattice vector', lam > 0))
            for kk in range(3):
                ob.append((f'{tag}: normal component {kk} parallel to the reciprocal-lattice vector', close(N[kk] * lam.denominator, G[kk] * lam.numerator, 1e-9, 1e4)))
        return ob
    return fn


# ---------------------------------------------------------------- (ii) stacking fault shifts on concrete fault cells
def ucell(kind):
    import atomman as am
    if kind == 'fcc':
        return am.System(atoms=am.Atoms(pos=np.array([[0, 0, 0], [0.5, 0.5, 0], [0.5, 0, 0.5], [0, 0.5, 0.5]]), atype=[1, 1, 1, 1]), box=am.Box.cubic(4.05), scale=True, symbols=['Al'])
    if kind == 'bcc':
        return am.System(atoms=am.Atoms(pos=np.array([[0, 0, 0], [0.5, 0.5, 0.5]]), atype=[1, 2]), box=am.Box.cubic(2.87), scale=True, symbols=['Fe', 'Cr'])
    if kind == 'hcp':
        return am.System(atoms=am.Atoms(pos=np.array([[1 / 3, 2 / 3, 0.25], [2 / 3, 1 / 3, 0.75]]), atype=[1, 1]), box=am.Box.hexagonal(3.2, 5.2), scale=True, symbols=['Mg'])
    raise ValueError(kind)


FAULTS = {
    'fcc111': dict(kind='fcc', hkl=[1, 1, 1], a1=[0.5, -0.5, 0.0], a2=[0.5, 0.0, -0.5], sizemults=[1, 1, 2]),
    'bcc110': dict(kind='bcc', hkl=[1, 1, 0], a1=[0.0, 0.0, 1.0], a2=[1.0, -1.0, 0.0], sizemults=[2, 1, 3]),       # B2 ordering: <100> and <110> are lattice vectors, 1/2<111> is not
    'hcp0001': dict(kind='hcp', hkl=[0, 0, 0, 1], a1=[1 / 3, -2 / 3, 1 / 3, 0.0], a2=[1.0, 0.0, -1.0, 0.0], sizemults=[1, 1, 2]),
}


def build_fault(name, cutboxvector='c', vacuumwidth=0.0):
    import atomman as am
    f = FAULTS[name]
    sm = list(f['sizemults'])
    if cutboxvector != 'c':
        i = 'abc'.index(cutboxvector); sm = [1, 1, 1]; sm[i] = f['sizemults'][2]
    sf = am.defect.StackingFault(f['hkl'], ucell(f['kind']), cutboxvector=cutboxvector, a1vect_uvw=f['a1'], a2vect_uvw=f['a2'])
    sf.surface(shiftindex=0, sizemults=sm, vacuumwidth=vacuumwidth)
    return sf


def symbolise(sf):
    """give the (concrete) fault system object-dtype position storage so that symbolic shifts can be stored in it"""
    import atomman as am
    s = sf.system
    if sx.symbolic_mode():
        P = np.array(s.atoms.pos, dtype=float)
        obj = np.empty(P.shape, dtype=object)
        for k in np.ndindex(P.shape): obj[k] = sx.SV(sx._const(float(P[k])))           # constant terms: keeps object storage
        new = am.System(atoms=am.Atoms(pos=obj.view(sx.SA), atype=np.array(s.atoms.atype)), box=s.box, pbc=s.pbc, symbols=s.symbols)
        sf._FreeSurface__system = new
    return sf.system


def layers(sf, base=None):
    z = np.array(sf.system.atoms.pos if base is None else base, dtype=float)[:, sf.cutindex]
    return np.unique(np.round(z, 6))


def fault_obligations(sf, base_pos, atype, new, shift, fp, ob, tag, full=None):
    ci = sf.cutindex
    inpl = [i for i in range(3) if i != ci]
    box = sf.system.box
    V = np.array(box.vects, dtype=float); Vinv = np.linalg.inv(V)
    n = len(base_pos)
    ob.append((f'{tag}: same atoms, same types', new.natoms == n and [int(t) for t in new.atoms.atype] == [int(t) for t in atype]))
    if new.natoms != n: return
    P = new.atoms.pos
    ob.append((f'{tag}: still periodic in the plane only', tuple(bool(x) for x in new.pbc) == tuple(i != ci for i in range(3))))
    for i in range(n):
        above = lt(fp, base_pos[i][ci]) if sx.is_sym(fp) else bool(base_pos[i][ci] > fp)
        stay = band(*[close(P[i, j], base_pos[i][j], 1e-9, 100.0) for j in range(3)])
        d = [P[i, j] - (base_pos[i][j] + shift[j]) for j in range(3)]
        r = [sum(d[k] * float(Vinv[k, j]) for k in range(3)) for j in range(3)]
        moved = band(close(d[ci], 0, 1e-9, 100.0), *[bor(*[close(r[j], m, 1e-9, 10.0) for m in range(-8, 9)]) for j in inpl])
        ob.append((f'{tag}: atom {i} stays when at/below the fault plane, moves by exactly the requested shift (mod the in-plane cell vectors) when above', band(implies(bnot(above), stay), implies(above, moved))))
        rel = [sum((P[i, k] - float(box.origin[k])) * float(Vinv[k, j]) for k in range(3)) for j in range(3)]
        ob.append((f'{tag}: atom {i} inside the periodic cell', band(*[band(le(-1e-9, rel[j]), lt(rel[j], 1 + 1e-9)) for j in inpl])))
    if full is not None:
        # shifted by full lattice vectors: every atom sits on a site of the unshifted crystal with its own type
        for i in range(n):
            hits = []
            for k in range(n):
                if int(atype[k]) != int(atype[i]): continue
                if abs(base_pos[k][ci] - base_pos[i][ci]) > 1e-6: continue
                dk = [P[i, j] - base_pos[k][j] for j in range(3)]
                rk = [sum(dk[q] * float(Vinv[q, j]) for q in range(3)) for j in range(3)]
                hits.append(band(close(dk[ci], 0, 1e-9, 100.0), *[bor(*[close(rk[j], m, 1e-9, 10.0) for m in (-1, 0, 1)]) for j in inpl]))
            ob.append((f'{tag}: atom {i} lands on a site of the perfect crystal (same layer, same type; modulo the in-plane cell vectors)', bor(*hits) if hits else False))


def h_fault(name, mode, cutboxvector='c'):
    def fn():
        sf = build_fault(name, cutboxvector, vacuumwidth=3.0 if mode == 'faultshift' else 0.0)      # vacuum: cell origin below zero along the cut
        base = [[float(x) for x in p] for p in np.array(sf.system.atoms.pos, dtype=float)]
        s = symbolise(sf)
        atype = [int(t) for t in s.atoms.atype]
        ci = sf.cutindex
        L = layers(sf, base)
        mid = len(L) // 2
        ob = []
        A1 = np.array(sf.a1vect_cart, dtype=float); A2 = np.array(sf.a2vect_cart, dtype=float)
        ob.append(('shift vectors lie in the fault plane', abs(A1[ci]) < 1e-8 and abs(A2[ci]) < 1e-8))
        o = np.zeros(3); o[ci] = 1.0
        if mode == 'fractional':
            fpv = var('faultpos', float(L[mid - 1]) + 0.05, float(L[mid + 1]) - 0.05)
            assume(band(*[bor(lt(fpv, float(z) - 0.01), lt(float(z) + 0.01, fpv)) for z in L]))     # between atomic layers
            a1 = var('a1', -1.25, 1.25); a2 = var('a2', -1.25, 1.25); oo = var('outofplane', -0.5, 2.0)
            sf.faultpos_cart = fpv
            new = sf.fault(a1=a1, a2=a2, outofplane=oo)
            shift = [a1 * float(A1[j]) + a2 * float(A2[j]) + oo * float(o[j]) for j in range(3)]
            fault_obligations(sf, base, atype, new, shift, fpv, ob, 'fault(a1,a2,outofplane)')
            # fault() works on a copy of the stored system: the same call again gives the same result, and the stored system is still the perfect slab
            again = sf.fault(a1=a1, a2=a2, outofplane=oo)
            ob.append(('fault() called twice with the same arguments returns the same positions (shifts do not accumulate)', band(again.natoms == new.natoms, *[close(again.atoms.pos[i, j], new.atoms.pos[i, j], 1e-9, 100.0) for i in range(new.natoms) for j in range(3)])))
            ob.append(('the stored perfect slab is untouched by fault()', band(*[close(sf.system.atoms.pos[i, j], base[i][j], 1e-9, 100.0) for i in range(len(base)) for j in range(3)])))
        elif mode == 'faultshift':
            rel = var('faultpos_rel', 0.3, 0.7)
            sf.faultpos_rel = rel
            fp = float(sf.system.box.origin[ci]) + rel * float(sf.system.box.vects[ci, ci])
            assume(band(*[bor(lt(fp, float(z) - 0.01), lt(float(z) + 0.01, fp)) for z in L]))
            ob.append(('faultpos_cart follows faultpos_rel', close(sf.faultpos_cart, fp, 1e-9, 100.0)))
            S = [var(f'fs{j}', -3.0, 3.0) for j in range(3)]
            new = sf.fault(faultshift=sa(S))
            fault_obligations(sf, base, atype, new, S, fp, ob, 'fault(faultshift)')
        elif mode == 'full':
            n1 = var('n1', -2, 2, integer=True); n2 = var('n2', -2, 2, integer=True)
            fp = float((L[mid - 1] + L[mid]) / 2)
            sf.faultpos_cart = fp
            new = sf.fault(a1=n1, a2=n2)
            shift = [n1 * float(A1[j]) + n2 * float(A2[j]) for j in range(3)]
            fault_obligations(sf, base, atype, new, shift, fp, ob, 'fault(n1,n2 full vectors)', full=True)
        return ob
    return fn


# ---------------------------------------------------------------- (iii) termination shifts: the shift computation of FreeSurface.__init__ on symbolic layer positions
_SHIFT = {}
def shift_stage():
    """the statements of FreeSurface.__init__ that compute the termination shifts from the rotated cell (from the
    assignment of ovect to the assignment of shifts), recompiled from the current source as a function of
    (rcell, cutindex, tol)"""
    import sys
    mod = sys.modules['atomman.defect.FreeSurface']
    key = id(getattr(mod, 'np', None))
    if key in _SHIFT: return _SHIFT[key]
    tree = ast.parse(inspect.getsource(mod))
    cls = next(n for n in tree.body if isinstance(n, ast.ClassDef) and n.name == 'FreeSurface')
    init = next(n for n in cls.body if isinstance(n, ast.FunctionDef) and n.name == '__init__')
    def assigns(st, name):
        return isinstance(st, ast.Assign) and any(isinstance(t, ast.Name) and t.id == name for t in st.targets)
    i0 = next(i for i, st in enumerate(init.body) if assigns(st, 'ovect'))
    i1 = next(i for i, st in enumerate(init.body) if assigns(st, 'shifts'))
    fdef = ast.parse('def _shift_stage(rcell, cutindex, tol):\n    pass').body[0]
    fdef.body = init.body[i0:i1 + 1] + [ast.parse('return shifts, rcellwidth').body[0]]
    m = ast.Module(body=[fdef], type_ignores=[])
    ast.fix_missing_locations(m)
    ns = {}
    exec(compile(m, '/repo/atomman/defect/FreeSurface.py<translated>', 'exec'), mod.__dict__, ns)
    _SHIFT[key] = ns['_shift_stage']
    return _SHIFT[key]


def h_shifts(nlayers, cutindex, dup):
    """rotated cell with nlayers atomic layers at SYMBOLIC heights along the cut direction (dup: two atoms in the first layer)"""
    def fn():
        import atomman as am
        stage = shift_stage()
        w = [6.0, 7.5, 9.0][cutindex]
        gap = 0.25
        z = [var(f'z{k}', 0.0, w - 0.01) for k in range(nlayers)]
        for k in range(nlayers - 1): assume(lt(z[k] + gap, z[k + 1]))
        assume(lt(z[-1] + gap, z[0] + w))
        order = list(range(nlayers))
        order = order[1::2] + order[0::2]                     # atoms are not stored in layer order
        rows = []
        for n_, k in enumerate(order):
            p = [0.3 + 0.7 * n_, 1.1 + 0.4 * n_, 0.5 + 0.9 * n_]; p[cutindex] = z[k]; rows.append(p)
        if dup:
            p = [2.2, 3.1, 2.7]; p[cutindex] = z[0]; rows.append(p)
        box = am.Box.orthorhombic(6.0, 7.5, 9.0)
        rcell = am.System(atoms=am.Atoms(pos=sa(rows)), box=box)
        shifts, width = stage(rcell, cutindex, 1e-7)
        ob = [('one shift vector per atomic layer, along the cut direction only', np.shape(shifts) == (nlayers, 3) and all((not sx.is_sym(shifts[i][j])) and float(shifts[i][j]) == 0.0 for i in range(np.shape(shifts)[0]) for j in range(3) if j != cutindex))]
        if np.shape(shifts) != (nlayers, 3): return ob
        S = [shifts[i][cutindex] for i in range(nlayers)]
        ob.append(('shifts lie within one cell width', band(*[band(le(0, s_), le(s_, w)) for s_ in S])))
        tiny = 1e-6
        for i, s_ in enumerate(S):
            # after the shift every layer height z_k + s (mod w) is strictly inside (0, w): the cut is strictly between planes
            ob.append((f'shift {i}: the cut falls strictly between atomic planes', band(*[bor(band(lt(tiny, zk + s_), lt(zk + s_, w - tiny)), band(lt(w + tiny, zk + s_), lt(zk + s_, 2 * w - tiny))) for zk in z])))
            # ... in the middle of a gap: distance to the plane below the cut == distance to the plane above it
        for i in range(nlayers):
            for j in range(i + 1, nlayers):
                ob.append((f'shifts {i} and {j} select different gaps', bnot(close(S[i], S[j], 1e-6, 10.0))))
        # every gap is offered: for each pair of consecutive layers some shift puts the cut between them
        for k in range(nlayers):
            lo = z[k]; hi = z[k + 1] if k + 1 < nlayers else z[0] + w
            mid = (lo + hi) / 2
            ob.append((f'the gap above layer {k} is offered, cut at its middle', bor(*[bor(close(mid + s_, w, 1e-6, 10.0), close(mid + s_, 2 * w, 1e-6, 10.0)) for s_ in S])))
        return ob
    return fn


# ---------------------------------------------------------------- concrete samples of the parts outside the solver's reach
def sample_cells():
    import atomman as am
    return {'cubic': am.Box.cubic(3.6), 'tetragonal': am.Box.tetragonal(3.0, 4.8), 'orthorhombic': am.Box.orthorhombic(3.0, 4.1, 5.3), 'hexagonal': am.Box.hexagonal(3.2, 5.2),
            'rhombohedral': am.Box.trigonal(4.0, 75.0), 'monoclinic': am.Box.monoclinic(3.0, 4.1, 5.3, 100.0)}


def h_basis_samples(H, fams=None):
    def fn():
        import atomman as am
        ob = []
        for fam, box in sample_cells().items():
            if fams is not None and fam not in fams: continue
            V = np.array(box.vects, dtype=float)
            bad = []
            nres = 0
            extra = [(-3, 3, -2), (-3, 3, -1), (3, -3, 2), (3, 3, -1)] if fam in ('hexagonal', 'rhombohedral') and H < 3 else []      # planes on which a degenerate basis was once returned
            for hkl in list(itertools.product(range(-H, H + 1), repeat=3)) + extra:
                if not any(hkl): continue
                G = np.array(recip_dir(V.tolist(), hkl), dtype=float)
                for cb in 'abc':
                    try:
                        uvws, N = am.defect.free_surface_basis(list(hkl), box=box, cutboxvector=cb, return_planenormal=True)
                    except AssertionError:
                        continue                        # search bound too small for this cell: no result to judge
                    nres += 1
                    ci = 'abc'.index(cb)
                    U = np.asarray(uvws, dtype=float)
                    ok = np.allclose(U, np.round(U)) and np.linalg.det(U @ V) > 1e-9
                    ok = ok and all(abs(np.dot(hkl, U[i])) < 1e-9 for i in range(3) if i != ci) and abs(np.dot(hkl, U[ci])) > 1e-9
                    ok = ok and np.linalg.norm(np.cross(N, G)) < 1e-8 * np.linalg.norm(N) * np.linalg.norm(G) and np.dot(N, G) > 0
                    if not ok: bad.append((hkl, cb))
            ob.append((f'{fam}: every returned triple is integer, right-handed, two vectors in the plane, the cut vector out of it, normal along the reciprocal-lattice vector ({nres} results; failing: {bad[:4]})', not bad and nres > 0))
        if fams is not None and 'hexagonal' not in fams: return ob
        # Miller-Bravais input and output in the hexagonal cell
        box = sample_cells()['hexagonal']; bad = []
        for h, k, l in itertools.product(range(-2, 3), repeat=3):
            if not any((h, k, l)): continue
            try:
                u4 = am.defect.free_surface_basis([h, k, -(h + k), l], box=box)
                u3 = am.defect.free_surface_basis([h, k, l], box=box)
            except AssertionError:
                continue
            if np.shape(u4) != (3, 4) or not np.allclose(am.tools.miller.vector4to3(u4), u3): bad.append((h, k, l))
        ob.append((f'hexagonal: 4-index planes give the 4-index form of the 3-index answer (failing: {bad[:4]})', not bad))
        return ob
    return fn


SURF = [('fcc', [1, 1, 1]), ('fcc', [1, 0, 0]), ('fcc', [1, 1, 0]), ('fcc', [2, 1, 1]), ('bcc', [1, 1, 0]), ('bcc', [1, 1, 2]), ('bcc', [1, 0, 0]), ('hcp', [0, 0, 0, 1]), ('hcp', [1, 0, -1, 0]), ('hcp', [1, 0, -1, 1])]
def h_surface_samples():
    def fn():
        import atomman as am
        ob = []
        for kind, hkl in SURF:
            uc = ucell(kind)
            for cb in 'abc':
                ci = 'abc'.index(cb)
                try:
                    fs = am.defect.FreeSurface(hkl, uc, cutboxvector=cb)
                except ValueError as e:
                    if 'cannot have' in str(e): continue          # documented refusal: orientation incompatible with the requested cut vector
                    raise
                U = np.asarray(fs.uvws, dtype=float)
                U3 = am.tools.miller.vector4to3(U) if U.shape[1] == 4 else U
                mult = round(abs(np.linalg.det(U3)))
                tag = f'{kind} {hkl} cut {cb}'
                okall = True; why = ''
                for k in range(len(fs.shifts)):
                    for sm in ([1, 1, 1], [2, 1, 3]):
                        s = fs.surface(shiftindex=k, sizemults=sm, vacuumwidth=0.0)
                        n_expect = uc.natoms * mult * sm[0] * sm[1] * sm[2]
                        rel = s.box.position_cartesian_to_relative(s.atoms.pos)[:, ci]
                        good = (s.natoms == n_expect and tuple(bool(x) for x in s.pbc) == tuple(i != ci for i in range(3))
                                and rel.min() > 1e-6 and rel.max() < 1 - 1e-6 and sorted(np.unique(s.atoms.atype).tolist()) == sorted(np.unique(uc.atoms.atype).tolist()))
                        if not good:
                            okall = False; why = f'shift {k} sizemults {sm}: natoms {s.natoms} vs {n_expect}, pbc {s.pbc}, rel range {rel.min():.3g}..{rel.max():.3g}'
                if kind == 'bcc' and okall:
                    # B2 ordering survives the re-orientation and replication: all first neighbours of an atom are of the other species
                    s_ = fs.surface(shiftindex=0, sizemults=[2, 1, 3] if cb == 'c' else ([3, 2, 1] if cb == 'a' else [1, 3, 2]), vacuumwidth=0.0)
                    nl_ = am.NeighborList(system=s_, cutoff=0.9 * 2.87)
                    t_ = np.asarray(s_.atoms.atype)
                    if not all(all(t_[j] != t_[i] for j in nl_[i]) for i in range(s_.natoms)) or nl_.coord.max() == 0:
                        okall = False; why = 'species misplaced: an atom of the B2 slab has a first neighbour of its own type'
                ob.append((f'{tag}: same crystal ({len(fs.shifts)} shifts), non-periodic only across the surface, every offered shift cuts strictly between atomic planes {why}', okall and len(fs.shifts) > 0))
        # documented refusal: orientation incompatible with the requested cut vector (monoclinic (100), cut vector a:
        # the rotated cell has an in-plane vector with an x component)
        mono = am.System(atoms=am.Atoms(pos=[[0.0, 0.0, 0.0], [0.875, 0.0, 0.5]]), box=am.Box(vects=[[4.0, 0.0, 0.0], [0.0, 3.0, 0.0], [-1.0, 0.0, 5.0]]), scale=True, symbols='Au')
        label = 'monoclinic (100), cut vector a: either refused (orientation incompatible with the cut vector) or every offered shift cuts between atomic planes'
        try:
            fsm = am.defect.FreeSurface([1, 0, 0], mono, cutboxvector='a')
            cb_ok = True
            for k in range(len(fsm.shifts)):
                sm_ = fsm.surface(shiftindex=k, sizemults=[1, 1, 1])
                rel = sm_.box.position_cartesian_to_relative(sm_.atoms.pos)[:, 0]
                cb_ok = cb_ok and rel.min() > 1e-6 and rel.max() < 1 - 1e-6
            ob.append((label, bool(cb_ok)))
        except ValueError:
            ob.append((label, True))
        return ob
    return fn


def cases(tier, seed=0):
    cs = []
    H = 4 if tier == 'quick' else 7
    planes = [p for p in itertools.product(range(-H, H + 1), repeat=3) if any(p)]
    nchunk = 16 if tier == 'quick' else 48
    for k in range(nchunk):
        chunk = planes[k::nchunk]
        cs.append(Case(f'normal_stage_{k}', h_stage(chunk), bind=BIND, budget_s=300 if tier == 'quick' else 1500, timeout_ms=20000, weight=2,
                       descr=f'first stage of free_surface_basis on a symbolic cell, {len(chunk)} planes with indices <= {H}'))
    hexp = [p for p in itertools.product(range(-2, 3), repeat=3) if any(p)]
    for k in range(4):
        cs.append(Case(f'normal_stage_hex_{k}', h_stage_hex(hexp[k::4]), bind=BIND, budget_s=300, timeout_ms=20000, descr='4-index planes in a hexagonal cell with symbolic a, c'))
    for name in FAULTS:
        for cb in ('c', 'a', 'b'):
            for mode in ('fractional', 'faultshift', 'full'):
                cs.append(Case(f'fault_{name}_{mode}' + ('' if cb == 'c' else f'_cut{cb}'), h_fault(name, mode, cb), bind=BIND, kernels=KER, allowed_exc=(), maxcases=32, max_paths=600,
                               budget_s=240 if tier == 'quick' else 1200, timeout_ms=20000, weight=3, descr=f'StackingFault.fault on {name}, cutboxvector {cb}, {mode} shifts'))
    for nl_, ci, dup in ((2, 2, False), (3, 2, True), (3, 0, False), (4, 1, False)) if tier == 'quick' else ((2, 2, False), (3, 2, True), (3, 0, False), (3, 1, True), (4, 1, False), (4, 2, True), (5, 2, False)):
        cs.append(Case(f'shifts_{nl_}layers_cut{"abc"[ci]}' + ('_dup' if dup else ''), h_shifts(nl_, ci, dup), bind=BIND, maxcases=32, max_paths=400, budget_s=240 if tier == 'quick' else 1500, timeout_ms=20000, weight=2,
                       descr=f'termination shifts computed by FreeSurface.__init__ for {nl_} atomic layers at symbolic heights, cut direction {"abc"[ci]}'))
    for fams in ([None] if tier == 'quick' else [(f,) for f in ('cubic', 'tetragonal', 'orthorhombic', 'hexagonal', 'rhombohedral', 'monoclinic')]):
      cs.append(Case('basis_samples' + ('' if fams is None else '_' + fams[0]), h_basis_samples(2 if tier == 'quick' else 3, fams), concrete_only=True, budget_s=170, descr='CONCRETE SAMPLES (not solver-decided): complete free_surface_basis incl. its search loops on one cell per crystal family, all planes within the sample bound, all cut vectors'))
    cs.append(Case('surface_samples', h_surface_samples(), concrete_only=True, budget_s=170, descr='CONCRETE SAMPLES (not solver-decided): FreeSurface cells and termination shifts on fcc/bcc/hcp'))
    return cs
