# C09 Unit conversion is invertible, precedence-correct and working-unit independent
import itertools, math, re
from fractions import Fraction
import numpy as np
from vlib.run import Case
from symx import core as sx
from symx.core import var, assume, eq, sa, band

META = dict(
    explanation='atomman.unitconvert.parse/set_in_units/get_in_units/set_literal/reset_units/build_unit and numericalunits.set_derived_units_and_constants are executed with the five base units m, kg, s, C, K as symbolic positive reals (the documented contract of numericalunits.reset_units(seed)); every entry of the unit table is then a symbolic monomial. parse() is compared with an independent precedence-climbing evaluator over (coefficient, exponent-vector) monomials whose exponent table is measured from concrete runs of numericalunits.',
    functions=['atomman/unitconvert.py:parse', 'atomman/unitconvert.py:set_in_units', 'atomman/unitconvert.py:get_in_units',
               'atomman/unitconvert.py:set_literal', 'atomman/unitconvert.py:reset_units', 'atomman/unitconvert.py:build_unit',
               'numericalunits.set_derived_units_and_constants', 'atomman/lammps/style.py:unit'],
    bounds=dict(quick='expressions: grammar over {eV, angstrom, ps, 2.5, 10} with * / ^k (k in 2,3,-1,-2) and parentheses, depth<=2 exhaustively plus a stride through depth 3, 3 whitespace variants; working-unit choices: all consistent subsets (size<=4) of {length,mass,time,energy,charge} with 2 names per category; 7 LAMMPS styles x 12 mechanical quantities',
                thorough='depth-3 expressions exhaustively; 3-4 unit names per category; fractional power ^0.5'),
    outside=['IEEE-754 rounding (the clause "to rounding" is taken as relative 1e-9)', 'chained powers a^b^c and symbolic exponents (the grammar of the property has numeric exponents)',
             'lj style (dimensionless by definition)', 'electrical table entries (the property restricts the dimension clause to mechanical entries)'],
    lemmas=[], cuts=[],
    assumptions=['base units m, kg, s, C, K are arbitrary positive reals (numericalunits contract); stub of numericalunits.reset_units sets them symbolic, for seed="SI" too (replay uses the real function)',
                 'module-global isinstance of atomman.unitconvert is shadowed so that symbolic values count as float in build_unit'],
    trusted=['numericalunits exponent table measured by concrete runs with base units 2,3,5,7,11'],
)
BIND = ['atomman.unitconvert']
BASE = ['m', 'kg', 's', 'C', 'K']


# ------------------------------------------------------------------ symbolic numericalunits
def install(suffix=''):
    """make the unit table symbolic: base units arbitrary positive reals"""
    import numericalunits as nu, atomman.unitconvert as uc
    real_reset = getattr(nu, '_verif_real_reset', None) or nu.reset_units
    nu._verif_real_reset = real_reset
    conc = not sx.symbolic_mode()
    def reset(seed=None):
        if conc and seed == 'SI':
            return real_reset('SI')
        for n in BASE:
            v = var(f'base_{n}{suffix}')
            assume(v > 0)
            if not conc:
                assume(v >= Fraction(1, 100)); assume(v <= 100)       # 10**uniform(-2,2)
            setattr(nu, n, v)
        nu.set_derived_units_and_constants()
    nu.reset_units = reset
    if not conc:
        bi = isinstance
        uc.isinstance = lambda v, t: True if (t is float and bi(v, sx.SV)) else bi(v, t)
    elif 'isinstance' in vars(uc):
        del uc.isinstance
    uc.reset_units()
    return uc


_EXPS = {}
def exponent_table():
    """independent oracle data: (SI coefficient, exponent vector) of every unit name, measured concretely"""
    if _EXPS: return _EXPS
    import numericalunits as nu
    real_reset = getattr(nu, '_verif_real_reset', None) or nu.reset_units
    saved = {k: v for k, v in vars(nu).items() if isinstance(v, float)}
    def table(vals):
        for n, v in zip(BASE, vals): setattr(nu, n, float(v))
        nu.set_derived_units_and_constants()
        return {k: v for k, v in vars(nu).items() if k[:1] != '_' and isinstance(v, float)}
    t1 = table([1, 1, 1, 1, 1])
    primes = [2, 3, 5, 7, 11]
    tp = table(primes)
    for k, c in t1.items():
        if c == 0: continue
        ratio = tp[k] / c
        # ratio^2 = prod p_i^(2 e_i): factor over the five primes (exponents are multiples of 1/2)
        fr = Fraction(ratio * ratio).limit_denominator(10 ** 12)
        num, den = fr.numerator, fr.denominator
        ev = []
        ok = True
        for p in primes:
            a = 0
            while num % p == 0: num //= p; a += 1
            while den % p == 0: den //= p; a -= 1
            ev.append(Fraction(a, 2))
        if num != 1 or den != 1: ok = False
        if ok: _EXPS[k] = (c, ev)
    for k, v in saved.items(): setattr(nu, k, v)
    return _EXPS


# ------------------------------------------------------------------ independent evaluator
def tokenize(s):
    toks = []; i = 0
    while i < len(s):
        ch = s[i]
        if ch in ' \t\n\r': i += 1
        elif ch in '()*/^': toks.append(ch); i += 1
        else:
            j = i
            while j < len(s) and s[j] not in ' \t\n\r()*/^': j += 1
            toks.append(s[i:j]); i = j
    return toks


def ref_eval(s):
    """precedence climbing: parentheses, then ^ (numeric exponent), then * / left to right.
    Values are (float coefficient, [5 exponents])."""
    T = exponent_table()
    toks = tokenize(s); pos = [0]
    def peek(): return toks[pos[0]] if pos[0] < len(toks) else None
    def nxt(): t = toks[pos[0]]; pos[0] += 1; return t
    def atom():
        t = nxt()
        if t == '(':
            v = expr()
            assert nxt() == ')'
            return v
        if t[0].isalpha():
            c, e = T[t]; return (c, list(e))
        return (float(t), [Fraction(0)] * 5)
    def power():
        b = atom()
        if peek() == '^':
            nxt(); k = nxt()
            kf = Fraction(k)
            return (b[0] ** float(kf), [x * kf for x in b[1]])
        return b
    def expr():
        v = power()
        while peek() in ('*', '/'):
            op = nxt(); w = power()
            if op == '*': v = (v[0] * w[0], [a + b for a, b in zip(v[1], w[1])])
            else: v = (v[0] / w[0], [a - b for a, b in zip(v[1], w[1])])
        return v
    v = expr()
    assert pos[0] == len(toks)
    return v


def agrees(p, ref, suffix=''):
    """obligation: the symbolic/concrete value p equals coef * prod base^exp up to 1e-9 relative"""
    coef, exps = ref
    N = 1; D = 1
    for n, e in zip(BASE, exps):
        if e.denominator != 1:
            return None
        b = var(f'base_{n}{suffix}')
        for _ in range(abs(int(e))):
            if e > 0: N = N * b
            else: D = D * b
    lhs = p * D; rhs = coef * N
    if sx.is_sym(lhs) or sx.is_sym(rhs):
        return band(lhs - rhs <= 1e-9 * abs(coef) * N, rhs - lhs <= 1e-9 * abs(coef) * N)
    return abs(lhs - rhs) <= 1e-6 * abs(rhs)


# ------------------------------------------------------------------ expression generator
ATOMS = ['eV', 'angstrom', 'ps', '2.5', '10']
def gen_exprs(depth, powers=('2', '3', '-1', '-2')):
    lv = [list(ATOMS)]
    for d in range(depth):
        prev = [e for l in lv for e in l]
        last = lv[-1]
        new = []
        for x in last:
            for k in powers:
                if '^' in x and not x.startswith('('): continue
                base = x if re.fullmatch(r'[\w.]+', x) else f'({x})'
                if re.fullmatch(r'[\d.]+', x) and k.startswith('-') and False: continue
                new.append(f'{base}^{k}')
            new.append(f'({x})')
        for x in last:
            for y in ATOMS + (last if d == 0 else []):
                for op in '*/':
                    new.append(f'{x}{op}{y}')
                    yy = y if re.fullmatch(r'[\w.^-]+', y) else f'({y})'
                    new.append(f'{yy}{op}{x}') if d > 0 else None
                    if not re.fullmatch(r'[\w.^-]+', y): new.append(f'{x}{op}({y})')
        seen = set(prev); out = []
        for e in new:
            if e not in seen: seen.add(e); out.append(e)
        lv.append(out)
    return lv


def ws_variants(e, k):
    if k == 0: return e
    if k == 1: return ' ' + re.sub(r'([*/])', r' \1 ', e) + ' '
    return re.sub(r'([*/()])', r' \1\t', e).replace('^', ' ^ ') + '\n'


def h_parse(exprs):
    def fn():
        uc = install()
        ob = []
        for e in exprs:
            try:
                r = ref_eval(e)
            except (ZeroDivisionError, OverflowError):
                continue
            p = uc.parse(e)
            a = agrees(p, r)
            if a is not None:
                ob.append((f'parse({e!r}) == independent evaluation', a))
        return ob
    return fn


ROUND = ['eV', 'angstrom', 'eV/angstrom^3', 'GPa', 'g/mol', 'kcal/(mol*angstrom)', 'mJ/m^2', 'angstrom/ps', '1e-18*g*nm^2/ns^2',
         '2*Ry*aBohr/hbar', '(eV/angstrom)^2', 'eV^-1', 'amu*angstrom^2/ps^2', ' eV / angstrom ', 'Pa*s/10', 'rtHz', 'eV^0.5']
def h_reparse():
    """the same unit strings parsed under one set of working units and then, in the same process, under a second,
    independent set: each factor follows the working units in force at the time of the call"""
    def fn():
        exprs = ['eV', 'angstrom', 'eV/angstrom^3', 'GPa', 'kcal/(mol*angstrom)', 'amu*angstrom^2/ps^2', 'nm']
        ob = []
        uc = install('')
        first = {e: uc.parse(e) for e in exprs}
        for e in exprs:
            a = agrees(first[e], ref_eval(e), '')
            if a is not None: ob.append((f'parse({e!r}) under the first working units', a))
        uc = install('_w2')
        for e in exprs:
            a = agrees(uc.parse(e), ref_eval(e), '_w2')
            if a is not None: ob.append((f'parse({e!r}) again after the working units were changed: follows the NEW units', a))
        a = agrees(uc.set_in_units(1, 'nm'), ref_eval('nm'), '_w2')
        if a is not None: ob.append(('set_in_units(1, nm) after the change', a))
        return ob
    return fn


def h_roundtrip(units):
    def fn():
        uc = install()
        v = var('value'); w = var('value2')
        ob = []
        for u in units:
            ob.append((f'get(set(v,{u!r}),{u!r}) == v', eq(uc.get_in_units(uc.set_in_units(v, u), u), v)))
            ob.append((f'set(get(v,{u!r}),{u!r}) == v', eq(uc.set_in_units(uc.get_in_units(v, u), u), v)))
            arr = sa([[v, w], [w, 1.5]])
            back = uc.get_in_units(uc.set_in_units(arr, u), u)
            ob.append((f'array round trip {u!r}', band(np.shape(back) == (2, 2), sx.alleq(back, arr))))
        for u in (None, 'scaled'):
            ob.append((f'set_in_units(v,{u!r}) == v', eq(uc.set_in_units(v, u), v)))
            ob.append((f'get_in_units(v,{u!r}) == v', eq(uc.get_in_units(v, u), v)))
        # set_literal: "<number> <unit expression>"
        for lit, num, u in [('2.5 angstrom', 2.5, 'angstrom'), ('1e3 eV/angstrom^3', 1e3, 'eV/angstrom^3'), ('-4 GPa', -4.0, 'GPa'),
                            ('7 kcal/(mol*angstrom)', 7.0, 'kcal/(mol*angstrom)')]:
            a = agrees(uc.set_literal(lit), (lambda r: (r[0] * num, r[1]))(ref_eval(u)))
            ob.append((f'set_literal({lit!r})', a))
        ob.append(('set_literal without unit', eq(uc.set_literal('3.25'), 3.25)))
        return ob
    return fn


SAMEDIM = [('eV', 'J'), ('eV', 'kcal/mol'), ('GPa', 'eV/angstrom^3'), ('angstrom', 'nm'), ('g/mol', 'amu'), ('mJ/m^2', 'eV/angstrom^2'),
           ('eV/angstrom', 'nN'), ('angstrom/ps', 'm/s'), ('bar', 'atm'), ('amu*angstrom^2/ps^2', 'eV'), ('Pa*s/10', 'g/(cm*s)'),
           ('2*Ry*aBohr/hbar', 'angstrom/fs'), ('hbar', 'eV*fs'), ('kB*K', 'eV')]
def h_samedim(pairs):
    def fn():
        uc = install('')
        p1 = {e: uc.parse(e) for pr in pairs for e in pr}
        uc = install('_w2')          # a second, independent set of working units
        p2 = {e: uc.parse(e) for pr in pairs for e in pr}
        ob = []
        for e1, e2 in pairs:
            # conversion factor e1 -> e2 is p(e1)/p(e2); compare cross-multiplied (all positive)
            lhs = p1[e1] * p2[e2]; rhs = p2[e1] * p1[e2]
            if sx.is_sym(lhs) or sx.is_sym(rhs):
                ob.append((f'convert {e1!r}->{e2!r} independent of working units', eq(lhs, rhs)))
            else:
                ob.append((f'convert {e1!r}->{e2!r} independent of working units', abs(lhs - rhs) <= 1e-9 * abs(rhs)))
        return ob
    return fn


CATS = dict(length=['angstrom', 'nm', 'm', 'inch'], mass=['amu', 'g', 'kg', 'lbm'], time=['ps', 'fs', 's', 'hour'],
            energy=['eV', 'J', 'kcal', 'Ry'], charge=['e', 'C', 'mAh', 'nC'])
def consistent(keys):
    # over-determined: length, mass, time and energy together
    return not {'length', 'mass', 'time', 'energy'} <= set(keys) and len(keys) <= 4
def h_reset(choice):
    def fn():
        uc = install()
        uc.reset_units(**choice)
        ob = []
        for k, name in choice.items():
            v = uc.unit[name]
            if sx.is_sym(v):
                ob.append((f'after reset_units({choice}) unit[{name!r}] == 1', band(v - 1 <= 1e-9, 1 - v <= 1e-9)))
            else:
                ob.append((f'after reset_units({choice}) unit[{name!r}] == 1', abs(v - 1) <= 1e-9))
        return ob
    return fn


def h_reset_refuse():
    def fn():
        uc = install()
        ob = []
        try:
            uc.reset_units(length='angstrom', mass='amu', time='ps', energy='eV', charge='e'); ob.append(('five working units refused', False))
        except ValueError:
            ob.append(('five working units refused', True))
        try:
            uc.reset_units(seed=3, length='angstrom'); ob.append(('seed with names refused', False))
        except ValueError:
            ob.append(('seed with names refused', True))
        return ob
    return fn


# exponents (m, kg, s) of each mechanical quantity
DIM = {'mass': (0, 1, 0), 'length': (1, 0, 0), 'time': (0, 0, 1), 'energy': (2, 1, -2), 'velocity': (1, 0, -1), 'force': (1, 1, -2),
       'torque': (2, 1, -2), 'pressure': (-1, 1, -2), 'dynamic viscosity': (-1, 1, -1), 'density': (-3, 1, 0),
       'ang-mom': (2, 1, -1), 'ang-vel': (0, 0, -1)}
STYLES = ['real', 'metal', 'si', 'cgs', 'electron', 'micro', 'nano']
def h_style(style):
    def fn():
        import atomman.lammps as lmp
        uc = install()
        tab = lmp.style.unit(style)
        ob = []
        sym = sx.symbolic_mode()
        if sym:
            import z3
            b = {n: z3.Real(f'base_{n}') for n in BASE}
        for q, ex in DIM.items():
            if q not in tab or tab[q] is None: continue
            p = uc.parse(tab[q])
            if sym:
                # scaling law: p(2m,3kg,5s,7C,11K) == 2^a 3^b 5^c p(m,kg,s,C,K)
                t = sx.term(p)
                sub = z3.substitute(t, (b['m'], 2 * b['m']), (b['kg'], 3 * b['kg']), (b['s'], 5 * b['s']), (b['C'], 7 * b['C']), (b['K'], 11 * b['K']))
                fac = Fraction(2) ** ex[0] * Fraction(3) ** ex[1] * Fraction(5) ** ex[2]
                ob.append((f'{style}.{q} = {tab[q]!r} has dimension m^{ex[0]} kg^{ex[1]} s^{ex[2]}',
                           sx.mkbool(sub == z3.RealVal(str(fac)) * t)))
            else:
                r = ref_eval(tab[q])
                ob.append((f'{style}.{q} = {tab[q]!r} has dimension m^{ex[0]} kg^{ex[1]} s^{ex[2]}',
                           tuple(r[1][:3]) == tuple(Fraction(x) for x in ex) and r[1][3] == 0 and r[1][4] == 0))
            a = agrees(p, ref_eval(tab[q]))
            if a is not None: ob.append((f'{style}.{q} value == independent evaluation', a))
        return ob
    return fn


def _chunks(l, n):
    k = max(1, math.ceil(len(l) / n))
    return [l[i:i + k] for i in range(0, len(l), k)]


def cases(tier, seed=0):
    cs = []
    lv = gen_exprs(3 if tier == 'thorough' else 2, powers=('2', '3', '-1', '-2') if tier == 'quick' else ('2', '3', '-1', '-2', '0.5'))
    exprs = lv[0] + lv[1] + lv[2]
    if tier == 'quick':
        deep = gen_exprs(3)[3]
        exprs += deep[seed % 97::97]
    else:
        exprs += lv[3][::5]
    allx = []
    for i, e in enumerate(exprs):
        allx.append(ws_variants(e, i % 3))
    for i, ch in enumerate(_chunks(allx, 24 if tier == 'quick' else 64)):
        cs.append(Case(f'parse_{i}', h_parse(ch), bind=BIND, reload=('atomman.unitconvert',), budget_s=150 if tier == 'quick' else 900, timeout_ms=20000,
                       descr=f'{len(ch)} unit expressions, e.g. {ch[0]!r}, {ch[-1]!r}'))
    for i, ch in enumerate(_chunks(ROUND, 6)):
        cs.append(Case(f'roundtrip_{i}', h_roundtrip(ch), bind=BIND, reload=('atomman.unitconvert',), budget_s=150, timeout_ms=20000, descr=f'set/get round trips for {ch}'))
    for i, ch in enumerate(_chunks(SAMEDIM, 5)):
        cs.append(Case(f'samedim_{i}', h_samedim(ch), bind=BIND, reload=('atomman.unitconvert',), budget_s=150, timeout_ms=20000, descr=f'conversion factors under two independent working-unit systems: {ch}'))
    nnames = 2 if tier == 'quick' else 3
    keys = list(CATS)
    k = 0
    for r in range(1, 5):
        for sub in itertools.combinations(keys, r):
            if not consistent(sub): continue
            for names in itertools.product(*[CATS[c][:nnames] for c in sub]):
                k += 1
                if tier == 'quick' and r >= 3 and (k + seed) % 3: continue
                ch = dict(zip(sub, names))
                cs.append(Case('reset_' + '_'.join(f'{a}={b}' for a, b in ch.items()), h_reset(ch), bind=BIND, reload=('atomman.unitconvert',), budget_s=100,
                               timeout_ms=20000, descr=f'reset_units({ch})'))
    cs.append(Case('reparse_after_reset', h_reparse(), bind=BIND, reload=('atomman.unitconvert',), budget_s=150, timeout_ms=20000, descr='unit strings parsed before and after a change of the working units'))
    cs.append(Case('reset_refusals', h_reset_refuse(), bind=BIND, reload=('atomman.unitconvert',), descr='documented refusals of reset_units'))
    for st in STYLES:
        cs.append(Case(f'style_{st}', h_style(st), bind=BIND, reload=('atomman.unitconvert',), budget_s=150, timeout_ms=20000, descr=f'LAMMPS unit style {st}: dimension of every mechanical table entry'))
    return cs
