# C01 One cell, many parameter sets: Box definitions and coordinate maps agree
import itertools, math
import numpy as np
from vlib.run import Case
from symx import core as sx
from symx.core import var, assume, eq, le, lt, sa, band, bor, bnot, alleq

META = dict(
    explanation='atomman.Box (all setters/getters, volume, reciprocal_vects, position_* conversions, planes, inside), region.Plane and tools.vect_angle are executed on symbolic cells (six LAMMPS parameters + origin; a,b,c + opaque cosines; general right-handed 3x3) and symbolic points of several leading shapes, list and array input.',
    functions=['atomman/core/Box.py:Box.__init__/set/set_vectors/set_abc/set_lengths/set_hi_los/vects/origin/a,b,c/alpha,beta,gamma/lx..yz/xlo..zhi/volume/reciprocal_vects/planes/inside/position_relative_to_cartesian/position_cartesian_to_relative/is_lammps_norm/cubic..triclinic',
               'atomman/region/Plane.py:Plane.__init__/below', 'atomman/tools/vect_angle.py:vect_angle'],
    bounds=dict(quick='all cells of LAMMPS form with lengths in [1,100], tilts |t|<=100 and either 0 or >=1e-3 (dead zone of the near-zero threshold), any origin; a,b,c in [1,100] with cosines in [-0.95,0.95] and realisability margin; general 3x3 with det>=1; points: any reals, shapes (3,), (2,3), (2,2,3); list and ndarray input',
                thorough='same plus every ordered pair of parameter sets and larger leading shapes'),
    outside=['IEEE-754 rounding', 'cells with a component inside the interval (0, 1e-9*max] of the near-zero threshold (dead-zone assumption)',
             'points closer than the rounding bound to a face (exempt in the property; the real-arithmetic statement has no such band)'],
    lemmas=['L1 cos(arccos x) = x for x in [-1,1] (implemented in symx.opaque; used for the reported angles)'],
    cuts=[],
    assumptions=['dead-zone: every tilt/vector component is 0 or at least 1e-3 in magnitude, magnitudes <= 100'],
    trusted=[],
)
BIND = ['atomman.core.Box', 'atomman.tools.vect_angle', 'atomman.region.Plane', 'atomman.region.Shape']


def lammps_cell(pre=''):
    lx, ly, lz = [var(pre + n, 1, 100) for n in ('lx', 'ly', 'lz')]
    xy, xz, yz = [var(pre + n, -100, 100, deadzone=0.001) for n in ('xy', 'xz', 'yz')]
    return lx, ly, lz, xy, xz, yz


def origin(pre=''):
    return [var(pre + n, -1000, 1000) for n in ('ox', 'oy', 'oz')]


def general_cell(pre='v'):
    V = [[var(f'{pre}{i}{j}', -100, 100, deadzone=0.001) for j in range(3)] for i in range(3)]
    d = sx.det3(V)
    assume(d >= 1)
    return V


def expect_vects(lx, ly, lz, xy, xz, yz):
    return [[lx, 0.0, 0.0], [xy, ly, 0.0], [xz, yz, lz]]


def same_box(box, V, O, tag):
    ob = []
    bv = box.vects; bo = box.origin
    for i in range(3):
        for j in range(3):
            ob.append((f'{tag}: vects[{i},{j}]', eq(bv[i, j], V[i][j])))
        ob.append((f'{tag}: origin[{i}]', eq(bo[i], O[i])))
    return ob


# ---- constructing / reading a box through each parameter set
def build(kind, lx, ly, lz, xy, xz, yz, O):
    from atomman import Box
    V = expect_vects(lx, ly, lz, xy, xz, yz)
    if kind == 'vects': return Box(vects=V, origin=O)
    if kind == 'avect': return Box(avect=V[0], bvect=V[1], cvect=V[2], origin=O)
    if kind == 'lengths': return Box(lx=lx, ly=ly, lz=lz, xy=xy, xz=xz, yz=yz, origin=O)
    if kind == 'hilo': return Box(xlo=O[0], xhi=O[0] + lx, ylo=O[1], yhi=O[1] + ly, zlo=O[2], zhi=O[2] + lz, xy=xy, xz=xz, yz=yz)
    raise KeyError(kind)


def rebuild(kind, b):
    from atomman import Box
    if kind == 'vects': return Box(vects=b.vects, origin=b.origin)
    if kind == 'avect': return Box(avect=b.avect, bvect=b.bvect, cvect=b.cvect, origin=b.origin)
    if kind == 'lengths': return Box(lx=b.lx, ly=b.ly, lz=b.lz, xy=b.xy, xz=b.xz, yz=b.yz, origin=b.origin)
    if kind == 'hilo': return Box(xlo=b.xlo, xhi=b.xhi, ylo=b.ylo, yhi=b.yhi, zlo=b.zlo, zhi=b.zhi, xy=b.xy, xz=b.xz, yz=b.yz)
    if kind == 'abc': return Box(a=b.a, b=b.b, c=b.c, alpha=b.alpha, beta=b.beta, gamma=b.gamma, origin=b.origin)
    raise KeyError(kind)


def h_pair(k1, k2):
    def fn():
        lx, ly, lz, xy, xz, yz = lammps_cell(); O = origin()
        b1 = build(k1, lx, ly, lz, xy, xz, yz, O)
        ob = same_box(b1, expect_vects(lx, ly, lz, xy, xz, yz), O, f'built from {k1}')
        b2 = rebuild(k2, b1)
        ob += same_box(b2, expect_vects(lx, ly, lz, xy, xz, yz), O, f'{k1} -> read as {k2} -> rebuilt')
        ob.append(('is_lammps_norm', b2.is_lammps_norm()))
        return ob
    return fn


def h_getters():
    def fn():
        lx, ly, lz, xy, xz, yz = lammps_cell(); O = origin()
        from atomman import Box
        b = Box(lx=lx, ly=ly, lz=lz, xy=xy, xz=xz, yz=yz, origin=O)
        ob = [('lx', eq(b.lx, lx)), ('ly', eq(b.ly, ly)), ('lz', eq(b.lz, lz)), ('xy', eq(b.xy, xy)), ('xz', eq(b.xz, xz)), ('yz', eq(b.yz, yz)),
              ('xlo', eq(b.xlo, O[0])), ('ylo', eq(b.ylo, O[1])), ('zlo', eq(b.zlo, O[2])),
              ('xhi', eq(b.xhi, O[0] + lx)), ('yhi', eq(b.yhi, O[1] + ly)), ('zhi', eq(b.zhi, O[2] + lz)),
              ('volume', eq(b.volume, lx * ly * lz)),
              ('a', eq(b.a, lx)), ('b^2', eq(b.b * b.b, xy * xy + ly * ly)), ('b>=0', le(0, b.b)),
              ('c^2', eq(b.c * b.c, xz * xz + yz * yz + lz * lz)), ('c>=0', le(0, b.c)),
              ('avect', alleq(b.avect, [lx, 0.0, 0.0])), ('bvect', alleq(b.bvect, [xy, ly, 0.0])), ('cvect', alleq(b.cvect, [xz, yz, lz]))]
        return ob
    return fn


def h_volume_general():
    """volume of a cell given by three arbitrary (not LAMMPS-oriented) vectors; kept apart from the length/angle
    obligations, whose square-root and arccos axioms make the joint query undecidable within the budget"""
    def fn():
        from atomman import Box
        V = general_cell(); b = Box(vects=V)
        return [('volume == |det| for arbitrary cell vectors', eq(b.volume, sx.det3(V)))]
    return fn


def _cosdeg(angle):
    """cos of an angle in degrees through the same shimmed numpy calls the code uses"""
    if sx.is_sym(angle):
        return sx.npshim.cos(angle * np.pi / 180)
    return math.cos(angle * math.pi / 180)


def h_angles(general):
    """reported lengths/angles are those of the vectors: a^2=|v0|^2 ..., cos(alpha)|b||c| = b.c ..."""
    def fn():
        from atomman import Box
        if general:
            V = general_cell(); b = Box(vects=V)
        else:
            lx, ly, lz, xy, xz, yz = lammps_cell(); V = expect_vects(lx, ly, lz, xy, xz, yz)
            b = Box(lx=lx, ly=ly, lz=lz, xy=xy, xz=xz, yz=yz)
        dot = lambda u, v: sum(x * y for x, y in zip(u, v))
        ob = []
        L = [b.a, b.b, b.c]
        for i, n in enumerate('abc'):
            ob.append((f'{n}^2 == |v{i}|^2', eq(L[i] * L[i], dot(V[i], V[i]))))
            ob.append((f'{n} >= 0', le(0, L[i])))
        for nm, ang, (i, j) in (('alpha', b.alpha, (1, 2)), ('beta', b.beta, (0, 2)), ('gamma', b.gamma, (0, 1))):
            ca = _cosdeg(ang)
            ob.append((f'cos({nm}) |v{i}||v{j}| == v{i}.v{j}', eq(ca * L[i] * L[j], dot(V[i], V[j]), scale=1e4)))
            if sx.is_sym(ang):
                ob.append((f'0 <= {nm} <= 180', band(ang >= 0, ang <= 180.0000001)))
            else:
                ob.append((f'0 <= {nm} <= 180', 0 <= ang <= 180))
        d = sx.det3(V)
        ob.append(('volume == |det|', eq(b.volume, d)))
        return ob
    return fn


def h_angles_sliver():
    """a very flat (but non-degenerate) cell: gamma between 0.03 and 0.25 degrees, i.e. cos(gamma) within 1e-5 of 1"""
    def fn():
        from atomman import Box
        lx = var('lx', 1, 2); ly = var('ly', 0.001, 0.004); lz = var('lz', 1, 2); xy = var('xy', 1, 2)
        V = expect_vects(lx, ly, lz, xy, 0.0, 0.0)
        b = Box(lx=lx, ly=ly, lz=lz, xy=xy, xz=0.0, yz=0.0)
        dot = lambda u, v: sum(x * y for x, y in zip(u, v))
        L = [b.a, b.b, b.c]
        g = b.gamma
        ob = [('b^2 == |v1|^2', eq(L[1] * L[1], dot(V[1], V[1])))]
        ob.append(('cos(gamma) |v0||v1| == v0.v1 for a cell angle below 0.25 degrees', eq(_cosdeg(g) * L[0] * L[1], dot(V[0], V[1]), scale=10.0)))
        ob.append(('gamma is strictly between 0 and 180', band(g > 0, g < 180) if sx.is_sym(g) else 0 < g < 180))
        return ob
    return fn


def angle_from_cos(name, lo=-0.95, hi=0.95):
    """an angle in (0,180) degrees, parametrised by its cosine (the symbolic input): in symbolic
    mode angle = 180*arccos(c)/pi with arccos opaque, so that the code's cos(angle*pi/180) is c
    again by lemma L1; in replay the angle is computed from the model's cosine"""
    c = var(name, lo, hi, deadzone=0.01)
    if sx.is_sym(c):
        return 180 * sx.npshim.arccos(c) / np.pi, c
    return math.degrees(math.acos(c)), c


def abc_params():
    a, b, c = [var(n, 1, 100) for n in 'abc']
    (al, ca), (be, cb), (ga, cg) = angle_from_cos('cos_alpha'), angle_from_cos('cos_beta'), angle_from_cos('cos_gamma')
    if sx.symbolic_mode():
        assume(1 + 2 * ca * cb * cg - ca * ca - cb * cb - cg * cg >= 0.05)
        # dead zone for the derived tilt yz = (b c cos(alpha) - xy xz)/ly (same expressions as set_abc)
        xy = b * cg; xz = c * cb
        ly = (b * b - xy * xy) ** 0.5
        yz = (b * c * ca - xy * xz) / ly
        assume((yz == 0) | (yz >= 0.001) | (yz <= -0.001))
        # enclosures that follow from the ranges above (|cos| <= 0.95, margin 0.05); stated as assumptions
        sx.assume_range(ly, 0.3, 100); sx.assume_range(yz, -100, 100)
        lz = (c * c - xz * xz - yz * yz) ** 0.5
        sx.assume_range(lz, 0.05, 100)
    return a, b, c, al, be, ga, ca, cb, cg


def h_abc():
    """Box(a,b,c,alpha,beta,gamma): LAMMPS orientation, Gram matrix of the vectors is that of the parameters"""
    def fn():
        from atomman import Box
        a, b, c, al, be, ga, ca, cb, cg = abc_params(); O = origin()
        bx = Box(a=a, b=b, c=c, alpha=al, beta=be, gamma=ga, origin=O)
        V = bx.vects
        dot = lambda u, v: sum(x * y for x, y in zip(u, v))
        S = 1e4
        ob = [('is_lammps_norm', bx.is_lammps_norm()),
              ('|v0|^2 == a^2', eq(dot(V[0], V[0]), a * a, S)), ('|v1|^2 == b^2', eq(dot(V[1], V[1]), b * b, S)),
              ('|v2|^2 == c^2', eq(dot(V[2], V[2]), c * c, S)),
              ('v0.v1 == a b cos(gamma)', eq(dot(V[0], V[1]), a * b * cg, S)), ('v0.v2 == a c cos(beta)', eq(dot(V[0], V[2]), a * c * cb, S)),
              ('v1.v2 == b c cos(alpha)', eq(dot(V[1], V[2]), b * c * ca, S)),
              ('origin', alleq(bx.origin, O))]
        ob += [('a getter', eq(bx.a, a)), ('b getter^2', eq(bx.b * bx.b, b * b, S)), ('c getter^2', eq(bx.c * bx.c, c * c, S))]
        # reading back the angles: cos(reported) |vi||vj| equals the dot product
        L = [bx.a, bx.b, bx.c]
        for nm, ang, (i, j), cc in (('alpha', bx.alpha, (1, 2), ca), ('beta', bx.beta, (0, 2), cb), ('gamma', bx.gamma, (0, 1), cg)):
            ob.append((f'cos({nm} getter)|v{i}||v{j}| == v{i}.v{j}', eq(_cosdeg(ang) * L[i] * L[j], dot(V[i], V[j]), S)))
        return ob
    return fn


def h_abc_refusals():
    def fn():
        from atomman import Box
        al = var('alpha')
        if sx.symbolic_mode():
            assume((al <= 0) | (al >= 180))
        try:
            Box(a=2.0, b=3.0, c=4.0, alpha=al, beta=80.0, gamma=70.0)
        except ValueError:
            return [('angle outside (0,180) refused', True)]
        return [('angle outside (0,180) refused', False)]
    return fn


def points(shape, tag='p'):
    a = np.empty(shape, dtype=object)
    for k in np.ndindex(shape):
        a[k] = var(tag + ''.join(map(str, k)), -1000, 1000)
    return a


def h_relcart(general, shape, aslist):
    def fn():
        from atomman import Box
        if general:
            V = general_cell(); O = origin(); b = Box(vects=V, origin=O)
        else:
            lx, ly, lz, xy, xz, yz = lammps_cell(); O = origin(); V = expect_vects(lx, ly, lz, xy, xz, yz)
            b = Box(lx=lx, ly=ly, lz=lz, xy=xy, xz=xz, yz=yz, origin=O)
        P = points(shape)
        arg = P.tolist() if aslist else sa(P)
        ob = []
        rel = b.position_cartesian_to_relative(arg)
        ob.append(('shape preserved (cart->rel)', np.shape(rel) == tuple(shape)))
        back = b.position_relative_to_cartesian(rel.tolist() if aslist else rel)
        ob.append(('shape preserved (rel->cart)', np.shape(back) == tuple(shape)))
        if np.shape(rel) != tuple(shape) or np.shape(back) != tuple(shape): return ob
        for k in np.ndindex(shape):
            ob.append((f'rel->cart(cart->rel(p)) == p {k}', eq(back[k], P[k], 1e3)))
        # independent definition: p = o + sum_i rel_i v_i
        for k in np.ndindex(shape[:-1]):
            for j in range(3):
                ob.append((f'p == o + rel.V {k}{j}', eq(O[j] + sum(rel[k + (i,)] * V[i][j] for i in range(3)), P[k + (j,)], 1e3)))
        cart = b.position_relative_to_cartesian(arg)
        rel2 = b.position_cartesian_to_relative(cart.tolist() if aslist else cart)
        for k in np.ndindex(shape):
            ob.append((f'cart->rel(rel->cart(s)) == s {k}', eq(rel2[k], P[k], 1e3)))
        return ob
    return fn


def h_recip(general):
    def fn():
        from atomman import Box
        if general:
            V = general_cell(); b = Box(vects=V)
        else:
            lx, ly, lz, xy, xz, yz = lammps_cell(); V = expect_vects(lx, ly, lz, xy, xz, yz)
            b = Box(lx=lx, ly=ly, lz=lz, xy=xy, xz=xz, yz=yz)
        R = b.reciprocal_vects
        ob = []
        for i in range(3):
            for j in range(3):
                ob.append((f'v{i}.r{j} == delta', eq(sum(V[i][k] * R[j][k] for k in range(3)), 1 if i == j else 0)))
        # cache invalidation: set again, duality must hold for the *new* vectors
        lx2, ly2, lz2, xy2, xz2, yz2 = lammps_cell('n_')
        V2 = expect_vects(lx2, ly2, lz2, xy2, xz2, yz2)
        for how in ('vects', 'set', 'set_lengths'):
            if how == 'vects': b.vects = V2
            elif how == 'set': b.set(vects=V2)
            else: b.set_lengths(lx=lx2, ly=ly2, lz=lz2, xy=xy2, xz=xz2, yz=yz2)
            R2 = b.reciprocal_vects
            for i in range(3):
                for j in range(3):
                    ob.append((f'after re-setting via {how}: v{i}.r{j} == delta', eq(sum(V2[i][k] * R2[j][k] for k in range(3)), 1 if i == j else 0)))
            b.vects = V     # back to the first cell (and its reciprocal)
            b.reciprocal_vects
        return ob
    return fn


def h_recip_left():
    """LEFT-handed cell (negative triple product: swapped / mirrored vectors): duality and the coordinate maps do not depend on handedness"""
    def fn():
        from atomman import Box
        V = [[var(f'v{i}{j}', -100, 100, deadzone=0.001) for j in range(3)] for i in range(3)]
        assume(sx.det3(V) <= -1)
        O = origin()
        b = Box(vects=V, origin=O)
        R = b.reciprocal_vects
        ob = []
        for i in range(3):
            for j in range(3):
                ob.append((f'left-handed cell: v{i}.r{j} == delta', eq(sum(V[i][k] * R[j][k] for k in range(3)), 1 if i == j else 0)))
        ob.append(('left-handed cell: volume == |a.(b x c)| > 0', band(eq(b.volume, -sx.det3(V)), b.volume > 0)))
        P = [var(f'p{k}', -1000, 1000) for k in range(3)]
        rel = b.position_cartesian_to_relative(P)
        back = b.position_relative_to_cartesian(rel)
        ob.append(('left-handed cell: relative -> Cartesian undoes Cartesian -> relative', band(*[eq(back[k], P[k]) for k in range(3)])))
        ob.append(('left-handed cell: Cartesian position == origin + sum rel_k v_k', band(*[eq(O[k] + sum(rel[i] * V[i][k] for i in range(3)), P[k]) for k in range(3)])))
        return ob
    return fn


def h_norm_scale(which):
    """a concrete cell that is NOT in LAMMPS orientation, scaled by a symbolic factor s in [1e-12, 1e3] (cells expressed in metres have
    components of 1e-10): is_lammps_norm() is False at every scale, and the LAMMPS parameters refuse to be read; an upper-triangle
    component that is exactly zero stays LAMMPS-compatible at every scale"""
    def fn():
        from atomman import Box
        s = var('s', 1e-12, 1000.0)
        V0 = {'rotated': [[3.0, 0.5, 0.0], [-0.4, 2.5, 0.3], [0.2, 0.1, 4.0]], 'swapped': [[0.0, 2.0, 0.0], [3.0, 0.0, 0.0], [0.0, 0.0, -4.0]], 'lammps': [[3.0, 0.0, 0.0], [0.7, 2.5, 0.0], [-0.2, 0.4, 4.0]]}[which]
        b = Box(vects=[[s * x for x in row] for row in V0])
        n = b.is_lammps_norm()
        ob = [(f'{which} cell scaled by any s in [1e-12,1e3]: is_lammps_norm() == {which == "lammps"}', n if which == 'lammps' else (not n))]
        bv = b.vects
        ob.append((f'{which} cell scaled: the stored vectors are the scaled vectors', band(*[eq(bv[i, j], s * V0[i][j]) for i in range(3) for j in range(3)])))
        return ob
    return fn


def h_inside(general, inclusive, n, lead=None):
    def fn():
        from atomman import Box
        if general:
            V = general_cell(); O = origin(); b = Box(vects=V, origin=O)
        else:
            lx, ly, lz, xy, xz, yz = lammps_cell(); O = origin(); V = expect_vects(lx, ly, lz, xy, xz, yz)
            b = Box(lx=lx, ly=ly, lz=lz, xy=xy, xz=xz, yz=yz, origin=O)
        P = points((n, 3))
        if lead is None:
            res = b.inside(sa(P), inclusive=inclusive)
            ob = [('one flag per point', np.shape(res) == (n,))]
        else:
            # the same points arranged with several leading dimensions
            res = b.inside(sa(P.reshape(tuple(lead) + (3,))), inclusive=inclusive)
            ob = [(f'one flag per point, leading shape {tuple(lead)}', np.shape(res) == tuple(lead))]
            if np.shape(res) != tuple(lead): return ob
            res = np.asarray(res, dtype=object).reshape(n)
        d = sx.det3(V)
        for k in range(n):
            # Cramer: s_i = det(V with row i replaced by p-o) / det V
            q = [P[k, j] - O[j] for j in range(3)]
            s = []
            for i in range(3):
                M = [list(r) for r in V]; M[i] = q
                s.append(sx.det3(M) / d)
            if sx.symbolic_mode():
                want = band(*[(si >= 0) & (si <= 1) for si in s]) if inclusive else band(*[(si > 0) & (si < 1) for si in s])
                ob.append((f'inside[{k}] <=> relative coordinates in {"[0,1]" if inclusive else "(0,1)"}', res[k] == want))
            else:
                tol = 1e-9
                if any(abs(si) < tol or abs(si - 1) < tol for si in s): ob.append((f'inside[{k}] (point on a face: exempt)', True)); continue
                want = all(0 <= si <= 1 for si in s)
                ob.append((f'inside[{k}] <=> relative coordinates in {"[0,1]" if inclusive else "(0,1)"}', bool(res[k]) == want))
        return ob
    return fn


def h_plane():
    def fn():
        from atomman.region import Plane
        nrm = [var(f'n{i}', -100, 100, deadzone=0.001) for i in range(3)]
        assume(nrm[0] * nrm[0] + nrm[1] * nrm[1] + nrm[2] * nrm[2] >= 1)
        pt = [var(f'q{i}', -100, 100) for i in range(3)]
        P = points((2, 3))
        pl = Plane(sa(nrm), sa(pt))
        ob = []
        n = pl.normal
        ob.append(('unit normal', eq(sum(n[i] * n[i] for i in range(3)), 1)))
        for inc in (True, False):
            r = pl.below(sa(P), inclusive=inc)
            ra = pl.above(sa(P), inclusive=not inc)
            for k in range(2):
                h = sum(nrm[i] * (P[k, i] - pt[i]) for i in range(3))
                if sx.symbolic_mode():
                    ob.append((f'below[{k}] inclusive={inc}', r[k] == ((h <= 0) if inc else (h < 0))))
                    ob.append((f'above == not below [{k}]', ra[k] == bnot(r[k])))
                else:
                    if abs(h) < 1e-9: continue
                    ob.append((f'below[{k}] inclusive={inc}', bool(r[k]) == (h < 0)))
                    ob.append((f'above == not below [{k}]', bool(ra[k]) == (not bool(r[k]))))
        return ob
    return fn


FAMILIES = ['cubic', 'hexagonal', 'tetragonal', 'trigonal', 'orthorhombic', 'monoclinic', 'triclinic']
def h_family(fam):
    """family constructors: the guards are part of the code under test; Gram matrix as documented.
    cos(90 deg) is 6e-17 in binary64, so the Gram identities are asserted to 1e-9 relative."""
    def fn():
        from atomman import Box
        a = var('a', 1, 100); b = var('b', 1, 100); c = var('c', 1, 100)
        if sx.symbolic_mode():
            assume((a - b >= 0.01) | (b - a >= 0.01)); assume((a - c >= 0.01) | (c - a >= 0.01)); assume((b - c >= 0.01) | (c - b >= 0.01))
        if fam == 'cubic': bx = Box.cubic(a); L = (a, a, a); C = (0, 0, 0)
        elif fam == 'hexagonal': bx = Box.hexagonal(a, c); L = (a, a, c); C = (0, 0, -0.5)
        elif fam == 'tetragonal': bx = Box.tetragonal(a, c); L = (a, a, c); C = (0, 0, 0)
        elif fam == 'orthorhombic': bx = Box.orthorhombic(a, b, c); L = (a, b, c); C = (0, 0, 0)
        elif fam == 'trigonal':
            al, ca = angle_from_cos('cos_alpha', -0.45, 0.95)       # alpha < 120 degrees
            if sx.symbolic_mode():
                assume(al < 120)
                assume(1 + 2 * ca * ca * ca - 3 * ca * ca >= 0.05)
                xy = a * ca; ly = (a * a - xy * xy) ** 0.5; yz = (a * a * ca - xy * xy) / ly
                assume((yz == 0) | (yz >= 0.001) | (yz <= -0.001))
            bx = Box.trigonal(a, al); L = (a, a, a); C = (ca, ca, ca)
        elif fam == 'monoclinic':
            al, ca = angle_from_cos('cos_beta', -0.95, -0.01)       # beta > 90 degrees
            if sx.symbolic_mode(): assume(al > 90)
            bx = Box.monoclinic(a, b, c, al); L = (a, b, c); C = (0, ca, 0)
        else:
            a, b, c, al, be, ga, ca, cb, cg = abc_params()
            if sx.symbolic_mode():
                assume(b - a >= 0.01); assume(c - b >= 0.01)       # generic, non-coincident lengths (one ordering)
                # coincident angles are refused by the constructor (ValueError, allowed for this case)
            bx = Box.triclinic(a, b, c, al, be, ga)
            ref = Box(a=a, b=b, c=c, alpha=al, beta=be, gamma=ga)       # decided by case `abc`
            return [('is_lammps_norm', bx.is_lammps_norm()), ('triclinic(...) is Box(a,b,c,alpha,beta,gamma)', alleq(bx.vects, ref.vects))]
        V = bx.vects
        dot = lambda u, v: sum(x * y for x, y in zip(u, v))
        ob = [('is_lammps_norm', bx.is_lammps_norm())]
        # exact equality when all three angles are symbolic; 1e-9 relative when a float cos(90 deg) is involved
        cmp_ = (lambda x, y: eq(x, y, 1e4)) if fam in ('triclinic', 'trigonal') else (lambda x, y: sx.close(x, y, 1e-9, 1e4))
        for i in range(3):
            ob.append((f'|v{i}|^2', cmp_(dot(V[i], V[i]), L[i] * L[i])))
        for nm, (i, j), cc in (('alpha', (1, 2), C[0]), ('beta', (0, 2), C[1]), ('gamma', (0, 1), C[2])):
            ob.append((f'v{i}.v{j} == |v{i}||v{j}|cos({nm})', cmp_(dot(V[i], V[j]), L[i] * L[j] * cc)))
        return ob
    return fn


def h_family_refusals():
    def fn():
        from atomman import Box
        a = var('a', 1, 100)
        ob = []
        for nm, f in (('hexagonal a==c', lambda: Box.hexagonal(a, a)), ('tetragonal a==c', lambda: Box.tetragonal(a, a)),
                      ('orthorhombic a==b', lambda: Box.orthorhombic(a, a, 2 * a)), ('trigonal alpha>=120', lambda: Box.trigonal(a, 120.0)),
                      ('monoclinic beta<=90', lambda: Box.monoclinic(a, 2 * a, 3 * a, 90.0))):
            try:
                f(); ob.append((nm + ' refused', False))
            except ValueError:
                ob.append((nm + ' refused', True))
        return ob
    return fn


def cases(tier, seed=0):
    cs = []
    kinds = ['vects', 'avect', 'lengths', 'hilo']
    for k1 in kinds:
        for k2 in kinds + ['abc']:
            if tier == 'quick' and k2 == 'abc': continue
            cs.append(Case(f'pair_{k1}_{k2}', h_pair(k1, k2), bind=BIND, budget_s=170, timeout_ms=(6000 if tier == 'quick' else 60000) if k2 == 'abc' else 20000,
                           descr=f'cell built from {k1}, read back as {k2}, rebuilt: same vectors and origin'))
    cs.append(Case('volume_general', h_volume_general(), bind=BIND, budget_s=120, timeout_ms=20000, descr='volume of a cell given by arbitrary vectors'))
    cs.append(Case('angles_sliver', h_angles_sliver(), bind=BIND, budget_s=120, timeout_ms=20000, descr='angles of a very flat cell (cos within 1e-5 of 1)'))
    cs.append(Case('getters', h_getters(), bind=BIND, budget_s=100, descr='all scalar getters of a LAMMPS-form cell'))
    for g in (False, True):
        cs.append(Case(f'angles_{"general" if g else "lammps"}', h_angles(g), bind=BIND, budget_s=120 if g else 170, timeout_ms=4000 if g else 30000, max_paths=12, weight=6 if g else 1,
                       descr='reported lengths, angles and volume are those of the vectors'))
        cs.append(Case(f'recip_{"general" if g else "lammps"}', h_recip(g), bind=BIND, budget_s=170, timeout_ms=20000, weight=5,
                       descr='reciprocal vectors dual to the cell vectors, also after the cell is set again (cache invalidation)'))
    cs.append(Case('recip_lefthanded', h_recip_left(), bind=BIND, budget_s=170, timeout_ms=20000, weight=3, descr='left-handed general cell: duality, volume, coordinate maps'))
    for which in ('rotated', 'swapped', 'lammps'):
        cs.append(Case(f'norm_scale_{which}', h_norm_scale(which), bind=BIND, budget_s=120, timeout_ms=20000, max_paths=20, descr=f'is_lammps_norm at every length scale ({which} concrete cell x symbolic scale factor)'))
        shapes = [((3,), False), ((3,), True), ((2, 3), False), ((2, 3), True), ((2, 2, 3), False)]
        if tier == 'thorough': shapes += [((2, 2, 3), True), ((1, 3), True), ((3, 1, 3), False)]
        for shp, aslist in shapes:
            cs.append(Case(f'relcart_{"general" if g else "lammps"}_{"x".join(map(str, shp))}_{"list" if aslist else "array"}',
                           h_relcart(g, shp, aslist), bind=BIND, budget_s=170, timeout_ms=20000,
                           descr=f'cartesian<->relative mutual inverses, shape {shp}, {"list" if aslist else "ndarray"} input'))
        for inc in (True, False):
            cs.append(Case(f'inside_{"general" if g else "lammps"}_{"incl" if inc else "excl"}', h_inside(g, inc, 1 if g else 2), bind=BIND,
                           budget_s=170, timeout_ms=(8000 if tier == 'quick' else 60000) if g else 30000, descr='inside(p) <=> relative coordinates within [0,1] / (0,1)'))
    for lead in ((2, 2), (2, 1, 3)):
        cs.append(Case(f'inside_lammps_incl_lead{"x".join(map(str, lead))}', h_inside(False, True, int(np.prod(lead)), lead), bind=BIND, budget_s=170, timeout_ms=30000,
                       descr=f'inside() for an array of points with leading shape {lead}'))
    cs.append(Case('abc', h_abc(), bind=BIND, budget_s=170, timeout_ms=30000, descr='Box(a,b,c,alpha,beta,gamma): Gram matrix and orientation'))
    cs.append(Case('abc_refusals', h_abc_refusals(), bind=BIND, budget_s=60, descr='angles outside (0,180) refused'))
    cs.append(Case('plane', h_plane(), bind=BIND, budget_s=120, timeout_ms=20000, descr='Plane.below/above vs signed distance'))
    T = 6000 if tier == 'quick' else 60000
    for f in FAMILIES:
        cs.append(Case(f'family_{f}', h_family(f), bind=BIND, budget_s=170, timeout_ms=T if f == 'triclinic' else 30000, descr=f'Box.{f} constructor',
                       allowed_exc=(ValueError,) if f == 'triclinic' else ()))
    cs.append(Case('family_refusals', h_family_refusals(), bind=BIND, budget_s=60, descr='documented refusals of the family constructors'))
    return cs
