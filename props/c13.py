# C13 Dislocation configurations: reference crystal displaced by the elastic solution
import itertools, math
import numpy as np
from vlib.run import Case
from symx import core as sx
from symx.core import var, assume, eq, le, lt, sa, band, bor, bnot, alleq, close, implies
from props.c14 import ucell

META = dict(
    explanation='Dislocation.monopole (real code: supersize, shift, wrap, displacement, pbc, boundary re-typing through region.PlaneSet / region.Cylinder) is executed on concrete fcc and bcc dislocation cells with the elastic solution replaced by a STUB returning one fresh SYMBOLIC displacement vector per atom and recording its argument, and with a SYMBOLIC core centre: the solver decides, for every displacement field within the amplitude bound and every centre, that the field was evaluated at (reference position - centre), that every reference atom is kept and moved by exactly its displacement (modulo the cell vector along the line only), that the result is periodic along the line only, and that exactly the atoms whose DISPLACED position lies outside the stated box / cylinder (independent analytic definition) are re-typed.',
    functions=['atomman/defect/Dislocation/_monopole.py:monopole,box_boundary,cylinder_boundary', 'atomman/defect/Dislocation/__init__.py:set_systems,set_shift', 'atomman/region/Plane.py:below', 'atomman/region/PlaneSet.py:inside', 'atomman/region/Cylinder.py:inside', 'atomman/region/Shape.py:outside',
               'atomman/core/System.py:supersize,wrap', 'atomman/core/Atoms.py'],
    bounds=dict(quick='fcc a/2[1-10](111) edge (line [11-2]; m,n = y,z and the non-cyclic x,z) and screw, bcc a/2[111](1-10) screw; centre absolute and in units of the rotated cell (centerscale); default sizemults (48-96 atoms); all atoms displaced symbolically |u_k| <= 0.3 angstrom, centre in [-2,2]^3; boundary widths 1.5 and 3.0 angstrom (box and cylinder) with the four atoms within 0.45 angstrom of the region surface and two others displaced symbolically |u_k| <= 0.5',
                thorough='same plus sizemults (1,4,2)/(4,1,2)-type cells and widths 1.0, 2.0, 4.0'),
    outside=['the elastic solution itself (C12) and therefore the disregistry accumulating to one Burgers vector: concrete samples only',
             'periodic-array configurations (deletion count, duplicate detection, linear blend, old-id mapping): whole-crystal discrete structure built through rotate/supersize/sorting of float coordinates with no input dimension for the solver; concrete samples only',
             'construction of the rotated cell and the shift list (C04, C14); symbolic boundary width (Cylinder.radius calls float(); box_boundary stores into a float array)', 'IEEE-754 rounding'],
    lemmas=[], cuts=['dislsol.displacement replaced by a recording stub with arbitrary bounded values'],
    assumptions=['displacements bounded as stated (atoms stay within half a cell of their reference site along the line)'], trusted=[],
)
BIND = ['atomman.core.Box', 'atomman.core.System', 'atomman.core.Atoms', 'atomman.defect.Dislocation', 'atomman.defect.Dislocation._monopole', 'atomman.region.Plane', 'atomman.region.PlaneSet', 'atomman.region.Cylinder', 'atomman.region.Shape']
KER = ['dvect', 'dmag']

CONFIGS = {
    'fcc_edge': dict(kind='fcc', C=dict(C11=105.0, C12=62.0, C44=28.0), burgers=[0.5, -0.5, 0.0], line=[1, 1, -2], slip=[1, 1, 1], m=[0, 1, 0], n=[0, 0, 1]),
    'fcc_screw': dict(kind='fcc', C=dict(C11=105.0, C12=62.0, C44=28.0), burgers=[0.5, -0.5, 0.0], line=[1, -1, 0], slip=[1, 1, 1], m=[1, 0, 0], n=[0, 1, 0]),
    'fcc_edge_xz': dict(kind='fcc', C=dict(C11=105.0, C12=62.0, C44=28.0), burgers=[0.5, -0.5, 0.0], line=[1, 1, -2], slip=[1, 1, 1], m=[1, 0, 0], n=[0, 0, 1]),     # non-cyclic axis assignment (line along y)
    'bcc_screw': dict(kind='bcc1', C=dict(C11=243.0, C12=145.0, C44=116.0), burgers=[0.5, 0.5, 0.5], line=[1, 1, 1], slip=[1, -1, 0], m=[0, 1, 0], n=[0, 0, 1]),
}


class real_numpy:
    """construction of the concrete dislocation cell runs on the real NumPy (nothing symbolic is involved yet)"""
    def __enter__(self):
        if sx.symbolic_mode(): sx.unbind(*BIND)
    def __exit__(self, *a):
        if sx.symbolic_mode(): sx.bind(*BIND)


def make_disl(name):
    with real_numpy():
        return _make_disl(name)


def _make_disl(name):
    import atomman as am
    f = CONFIGS[name]
    if f['kind'] == 'bcc1':
        uc = am.System(atoms=am.Atoms(pos=np.array([[0, 0, 0], [0.5, 0.5, 0.5]]), atype=[1, 1]), box=am.Box.cubic(2.87), scale=True, symbols=['Fe'])
    else:
        uc = ucell(f['kind'])
    C = am.ElasticConstants(**f['C'])
    return am.defect.Dislocation(uc, C, burgers=f['burgers'], ξ_uvw=f['line'], slip_hkl=f['slip'], m=f['m'], n=f['n'])


class Stub:
    """stand-in for the elastic solution: arbitrary (symbolic) bounded displacement per atom; records its argument"""
    def __init__(self, real, chosen, amp):
        self.real = real; self.chosen = chosen; self.amp = amp; self.args = []; self.U = None
    def __getattr__(self, n):
        return getattr(self.real, n)
    def displacement(self, pos):
        self.args.append(pos)
        n = len(pos)
        U = np.zeros((n, 3), dtype=object)
        for i in (range(n) if self.chosen is None else self.chosen):
            for j in range(3): U[i, j] = var(f'u{i}_{j}', -self.amp, self.amp)
        self.U = U
        return sa(U) if sx.symbolic_mode() else np.asarray(U.tolist(), dtype=float)


def symbolise_rcell(d):
    """object-dtype position storage for the rotated cell (constant terms) so that symbolic displacements can be added"""
    import atomman as am
    if not sx.symbolic_mode(): return
    r = d.rcell
    P = np.array(r.atoms.pos, dtype=float)
    obj = np.empty(P.shape, dtype=object)
    for k in np.ndindex(P.shape): obj[k] = sx.SV(sx._const(float(P[k])))
    d._Dislocation__rcell = am.System(atoms=am.Atoms(pos=obj.view(sx.SA), atype=np.array(r.atoms.atype)), box=r.box, pbc=r.pbc, symbols=r.symbols)


def fl(x):
    if sx.is_sym(x):
        import z3
        return float(sx._fr(z3.simplify(x.t)))
    return float(x)


def reference_base(name, sizemults=None):
    """the reference system from an untouched instance (concrete)"""
    d = make_disl(name)
    kw = {} if sizemults is None else dict(sizemults=list(sizemults))
    with real_numpy():
        base, _ = d.monopole(return_base_system=True, **kw)
    return d, base


def face_distances(box, lineindex, p):
    """perpendicular distances of point p from the four cell faces that contain the line direction (independent of
    region.Plane): list of (distance from the lower face, distance from the upper face) per non-line direction"""
    V = np.array(box.vects, dtype=float); O = np.array(box.origin, dtype=float)
    out = []
    for i in range(3):
        if i == lineindex: continue
        nrm = np.cross(V[(i + 1) % 3], V[(i + 2) % 3]); nrm = nrm / np.linalg.norm(nrm)
        if np.dot(nrm, V[i]) < 0: nrm = -nrm
        h = float(np.dot(nrm, V[i]))
        d = sum((p[k] - float(O[k])) * float(nrm[k]) for k in range(3))
        out.append((d, h - d))
    return out


def h_monopole(name, shape, width, sizemults=None, amp=0.3, centerscale=False):
    def fn():
        import atomman as am
        dref, base0 = reference_base(name, sizemults)
        B0 = np.array(base0.atoms.pos, dtype=float)
        n = base0.natoms
        li = dref.lineindex
        box = base0.box
        V = np.array(box.vects, dtype=float); Vinv = np.linalg.inv(V)
        xi = V[li] / np.linalg.norm(V[li])
        if width > 0:
            # atoms whose re-typing depends on the displacement: those close to the region surface (+ two others)
            R0 = min(min(pair) for pair in face_distances(box, li, [0.0, 0.0, 0.0]))
            chosen = []
            for i in range(n):
                if shape == 'box':
                    m_ = min(min(pair) for pair in face_distances(box, li, B0[i])) - width
                else:
                    rad = np.linalg.norm(B0[i] - np.dot(B0[i], xi) * xi); m_ = (R0 - width) - rad
                if abs(m_) < 0.45: chosen.append(i)
            chosen = chosen[:4] + [0, n // 2]
            chosen = sorted(set(chosen))
        else:
            chosen = None
        d = make_disl(name)
        symbolise_rcell(d)
        stub = Stub(d.dislsol, chosen, amp)
        d._Dislocation__dislsol = stub
        kw = {} if sizemults is None else dict(sizemults=list(sizemults))
        if centerscale:
            # centre given relative to the ROTATED cell's vectors
            crel = [var(f'c{j}', -0.3, 0.3) for j in range(3)]
            RV = np.array(dref.rcell.box.vects, dtype=float)
            cen = [sum(crel[k] * float(RV[k, j]) for k in range(3)) for j in range(3)]
            cen_arg = crel; kw['centerscale'] = True
        else:
            cen = [var(f'c{j}', -2.0, 2.0) for j in range(3)]; cen_arg = cen
        if sx.symbolic_mode() and width > 0: sx.ctx().force_masks = True      # the outside() mask indexes the integer type array: decided element by element
        base, ds = d.monopole(center=sa(cen_arg) if sx.symbolic_mode() else np.array(cen_arg), boundaryshape=shape, boundarywidth=width, return_base_system=True, **kw)
        ob = []
        if base.natoms != n:
            return [('reference system: number of atoms', False)]
        # exact arithmetic on constants vs binary64: atoms sitting on a periodic face may be wrapped to the opposite face;
        # the reference positions of THIS run are used below, and compared with the untouched instance modulo cell vectors
        B = np.array([[fl(base.atoms.pos[i, j]) for j in range(3)] for i in range(n)])
        rr = (B - B0) @ Vinv
        ob.append(('reference system: the rotated, shifted perfect crystal (same as an untouched instance builds, modulo cell vectors)', bool(np.allclose(rr, np.round(rr), atol=1e-7))
                   and base.natoms == d.rcell.natoms * int(round(abs(np.linalg.det(V @ np.linalg.inv(np.array(d.rcell.box.vects, dtype=float))))))))
        ob.append(('every reference atom kept', ds.natoms == n))
        if ds.natoms != n or len(stub.args) != 1:
            ob.append(('elastic solution evaluated once on all atoms', False)); return ob
        arg = stub.args[0]
        ob.append(('elastic solution evaluated at (reference position - centre)', band(np.shape(arg) == (n, 3), *[close(arg[i, j], B[i, j] - cen[j], 1e-9, 100.0) for i in range(n) for j in range(3)])))
        ob.append(('periodic along the dislocation line only', tuple(bool(x) for x in ds.pbc) == tuple(i == li for i in range(3))))
        ob.append(('the periodic cell vector along the line is kept', band(*[close(ds.box.vects[li, j], float(V[li, j]), 1e-9, 100.0) for j in range(3)])))
        P = ds.atoms.pos; U = stub.U
        nty = base0.natypes
        T0 = [int(t) for t in base0.atoms.atype]
        for i in range(n):
            dd = [P[i, j] - (B[i, j] + U[i, j]) for j in range(3)]
            r = [sum(dd[k] * float(Vinv[k, j]) for k in range(3)) for j in range(3)]
            ob.append((f'atom {i}: reference position + its displacement (modulo the cell vector along the line only)',
                       band(*[close(r[j], 0, 1e-9, 10.0) if j != li else bor(*[close(r[j], m_, 1e-9, 10.0) for m_ in (-1, 0, 1)]) for j in range(3)])))
        if width > 0:
            ob.append(('symbols doubled for the boundary types', tuple(ds.symbols) == tuple(base0.symbols) * 2))
            R0 = min(min(pair) for pair in face_distances(box, li, [0.0, 0.0, 0.0]))
            eps = 1e-6
            # strict comparisons (the tolerant lt() of the concrete replay must not be used in an antecedent); points
            # within eps of the region surface are exempt
            slt = (lambda a_, b_: a_ < b_) if sx.symbolic_mode() else (lambda a_, b_: float(a_) < float(b_))
            for i in range(n):
                p = [P[i, j] for j in range(3)]
                t = ds.atoms.atype[i]
                if shape == 'box':
                    margins = [x - width for pair in face_distances(box, li, p) for x in pair]
                    inside = band(*[slt(eps, m_) for m_ in margins]); outside = bor(*[slt(m_, -eps) for m_ in margins])
                else:
                    ax = sum(p[k] * float(xi[k]) for k in range(3))
                    r2 = sum(p[k] * p[k] for k in range(3)) - ax * ax
                    R = R0 - width
                    inside = slt(r2, (R - eps) ** 2); outside = slt((R + eps) ** 2, r2)
                ob.append((f'atom {i}: re-typed as boundary exactly when its displaced position is outside the {shape} region of width {width}',
                           band(implies(inside, eq(t, T0[i])), implies(outside, eq(t, T0[i] + nty)), bor(eq(t, T0[i]), eq(t, T0[i] + nty)))))
        else:
            ob.append(('no boundary width: types unchanged', [int(t) for t in ds.atoms.atype] == T0))
        return ob
    return fn


# ---------------------------------------------------------------- concrete samples of what the solver cannot reach
def h_samples():
    def fn():
        import atomman as am
        ob = []
        for name in CONFIGS:
            d = make_disl(name)
            b = np.array(d.dislsol.burgers, dtype=float)
            li, ci, mi = d.lineindex, d.cutindex, d.motionindex
            # monopole: disregistry across the slip plane accumulates to one Burgers vector (up to the elastic tail)
            base, ds = d.monopole(sizemults=[(1 if i == li else 12) for i in range(3)], return_base_system=True)
            mvec = np.zeros(3); mvec[mi] = 1; nvec = np.zeros(3); nvec[ci] = 1
            x, dis = am.defect.disregistry(base, ds, m=mvec, n=nvec)
            tot = dis[-1] - dis[0]
            ob.append((f'{name} monopole: disregistry accumulates to one Burgers vector within the elastic tail ({np.round(tot, 3).tolist()} vs {np.round(b, 3).tolist()})',
                       bool(np.linalg.norm(np.abs(tot) - np.abs(b)) < 0.25 * np.linalg.norm(b))))
            # periodic array
            d = make_disl(name)
            sm = [(1 if i == li else 8) for i in range(3)]
            base, ds = d.periodicarray(sizemults=list(sm), return_base_system=True)
            edge = abs(b[mi])
            nfull = d.rcell.natoms * int(np.prod(sm))
            L = sm[mi] * abs(d.rcell.box.vects[mi, mi])
            nexp = nfull - int(round(nfull * edge / (2 * L)))
            pb = tuple(bool(x) for x in ds.pbc)
            nl = am.NeighborList(system=ds, cutoff=1.2)
            ok = ds.natoms == nexp and base.natoms == ds.natoms and pb == tuple(i != ci for i in range(3)) and nl.coord.max() == 0
            oid = np.asarray(ds.atoms.old_id)
            ok = ok and len(np.unique(oid)) == ds.natoms and oid.max() < nfull
            # every remaining atom maps back to its reference atom: same index in the trimmed reference system, same type,
            # displaced by less than one Burgers vector (through the periodic boundaries of the dislocation cell)
            dv = am.dvect(base.atoms.pos, ds.atoms.pos, ds.box, ds.pbc)
            ok = ok and bool(np.all(np.asarray(base.atoms.atype) == np.asarray(ds.atoms.atype))) and float(np.linalg.norm(dv, axis=1).max()) < 1.01 * np.linalg.norm(b)
            ob.append((f'{name} periodic array: removes the atoms of the edge component ({nfull} -> {ds.natoms}, expected {nexp}), periodic in the slip plane, no overlapping atoms, each atom maps back to its reference atom', bool(ok)))
            # linear blend only: the disregistry is exactly linear along m and accumulates one Burgers vector per period
            dl = make_disl(name)
            basel, dsl = dl.periodicarray(sizemults=list(sm), linear=True, return_base_system=True)
            xl, disl_ = am.defect.disregistry(basel, dsl, m=mvec, n=nvec)
            bdir = b / np.linalg.norm(b)
            comp = np.unwrap(disl_ @ bdir, period=np.linalg.norm(b))
            keep = (xl > xl.min() + 0.15 * (xl.max() - xl.min())) & (xl < xl.max() - 0.15 * (xl.max() - xl.min()))
            slope = np.polyfit(xl[keep], comp[keep], 1)[0]
            ob.append((f'{name} periodic array (linear blend): disregistry slope x period = {abs(slope) * L:.4f} vs |b| = {np.linalg.norm(b):.4f}', bool(abs(abs(slope) * L - np.linalg.norm(b)) < 0.015 * np.linalg.norm(b))))
            # the pair stored on the object is the pair that was returned (reference system trimmed to the remaining atoms)
            ob.append((f'{name} periodic array: d.base_system / d.disl_system are the returned pair (same number of atoms, atom for atom)', bool(d.base_system.natoms == d.disl_system.natoms == ds.natoms and np.allclose(d.base_system.atoms.pos, base.atoms.pos))))
            x, dis = am.defect.disregistry(base, ds, m=mvec, n=nvec)
            tot = dis[-1] - dis[0]
            ob.append((f'{name} periodic array: disregistry accumulates to one Burgers vector ({np.round(tot, 3).tolist()} vs {np.round(b, 3).tolist()})', bool(np.linalg.norm(np.abs(tot) - np.abs(b)) < 0.25 * np.linalg.norm(b))))
        # a shift given at construction in units of the rotated cell vectors (shiftscale=True) is that combination of the cell vectors
        f = CONFIGS['fcc_edge']
        import atomman as am
        C = am.ElasticConstants(**f['C'])
        rel = np.array([0.1, 0.25, 0.4])
        dsh = am.defect.Dislocation(ucell(f['kind']), C, burgers=f['burgers'], ξ_uvw=f['line'], slip_hkl=f['slip'], m=f['m'], n=f['n'], shift=rel, shiftscale=True)
        want = rel.dot(np.array(dsh.rcell.box.vects, float))
        dab = am.defect.Dislocation(ucell(f['kind']), C, burgers=f['burgers'], ξ_uvw=f['line'], slip_hkl=f['slip'], m=f['m'], n=f['n'], shift=want)
        ob.append((f'constructor shift with shiftscale=True == the same combination of the rotated cell vectors ({np.round(dsh.shift, 4).tolist()} vs {np.round(want, 4).tolist()}), and equals the absolute form', bool(np.allclose(dsh.shift, want, atol=1e-9) and np.allclose(dab.shift, want, atol=1e-9))))
        return ob
    return fn


def cases(tier, seed=0):
    cs = []
    for name in CONFIGS:
        cs.append(Case(f'monopole_{name}_field', h_monopole(name, 'cylinder', 0.0), bind=BIND, kernels=KER, maxcases=32, max_paths=60, budget_s=280, timeout_ms=20000, weight=4,
                       descr=f'{name}: every atom displaced by an arbitrary bounded field, symbolic centre, no boundary'))
    for name in (('fcc_edge', 'bcc_screw') if tier == 'quick' else tuple(CONFIGS)):
        cs.append(Case(f'monopole_{name}_field_centerscale', h_monopole(name, 'cylinder', 0.0, centerscale=True), bind=BIND, kernels=KER, maxcases=32, max_paths=60, budget_s=280, timeout_ms=20000, weight=4,
                       descr=f'{name}: symbolic centre given in units of the rotated cell vectors (centerscale=True)'))
    if tier == 'quick':
        combos = [('fcc_edge', 'box', 1.5), ('fcc_edge', 'cylinder', 3.0), ('bcc_screw', 'box', 3.0), ('bcc_screw', 'cylinder', 1.5), ('fcc_edge_xz', 'box', 3.0), ('fcc_edge_xz', 'cylinder', 1.5), ('fcc_edge_xz', 'cylinder', 3.0)]
    else:
        combos = [(n_, sh, w) for n_ in CONFIGS for sh in ('box', 'cylinder') for w in (1.0, 1.5, 2.0, 3.0, 4.0)]
    for name, shape, w in combos:
        cs.append(Case(f'monopole_{name}_{shape}_w{w}', h_monopole(name, shape, w, amp=0.5), bind=BIND, kernels=KER, maxcases=32, max_paths=300, budget_s=280, timeout_ms=20000, weight=4,
                       descr=f'{name}: boundary {shape} of width {w}; atoms next to the region surface displaced symbolically'))
    cs.append(Case('samples', h_samples(), concrete_only=True, budget_s=200, descr='CONCRETE SAMPLES (not solver-decided): disregistry of the real elastic solution, periodic-array configurations'))
    return cs
