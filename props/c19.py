# C19 A LAMMPS log is read back run by run, column by column, value by value
import itertools, math, io, contextlib, datetime
import numpy as np
from vlib.run import Case
from symx import core as sx
from symx.core import var, assume, eq, le, band, bor, bnot

META = dict(
    explanation='Log.read is executed on a file whose LINES are symbolic: each of K lines carries a symbolic kind (blank, banner, other text, memory-usage line of either wording, thermo header, thermo row, "Loop time" line) and answers exactly the questions the reader asks of a line (is it blank, does it start with "LAMMPS (", does it contain each trigger string) as solver terms; the sequence is assumed to be a well-formed log through a transition relation on the kinds. pandas.read_csv is replaced by a reference implementation of its header/nrows/skip_blank_lines line selection over the same symbolic lines. On every explored path the solver decides that each (header, nrows) pair selects exactly the header line of the k-th run and all of its rows. For every case a concrete witness log is synthesised from the path model and read by the REAL Log with the real pandas: column names, values row by row, version string and date, append semantics and flatten().',
    functions=['atomman/lammps/Log.py:Log.read, Log.__read_thermo, Log.__read_lammps_version, Log.flatten, Simulation'],
    bounds=dict(quick='every well-formed sequence of K <= 7 lines (any number of runs that fits, blank lines anywhere, both memory-banner wordings, complete or truncated final run), explored per first-lines prefix within a time budget; witness logs with 3 thermo columns',
                thorough='K <= 9'),
    outside=['the timing-breakdown (performance) tables: pandas parsing with sep="|" (C boundary), only present in the concrete witnesses', 'table VALUES are checked on the synthesised witnesses only (pandas.read_csv number parsing is a C boundary)',
             'reading from a path on disk (string and stream input are used)'],
    lemmas=[], cuts=['pandas.read_csv replaced in the symbolic run by its line-selection semantics (header = index among non-blank lines, nrows following non-blank lines)', 'uber_open_rmode replaced by a context manager yielding the symbolic file'],
    assumptions=['well-formed log: [text|banner]* ( memory-line header row* [Loop-time [text]*] )* with blank lines anywhere; no trigger string inside header/row/text lines'],
    trusted=['the reference line-selection semantics of read_csv (validated on the concrete witness of every case by the real pandas)'],
)
BIND = []
BLANK, BANNER, OTHER, MEM, HEADER, ROW, LOOP = range(7)
KN = ['blank', 'banner', 'text', 'memory', 'header', 'row', 'loop']
PRE, AFTER_MEM, IN_ROWS, AFTER_LOOP = range(4)
TRIG_MEM = ['Memory usage per processor =', 'Per MPI rank memory allocation (min/avg/max) =']


class SymLine:
    def __init__(self, i, kind, which):
        self.i = i; self.kind = kind; self.which = which          # kind: SV int; which: SV int in {0,1} (memory-line wording)
    def decode(self, enc): return self
    def split(self):
        return [] if (self.kind == BLANK) else ['x']
    def __getitem__(self, s):
        if s == slice(None, 8): return _Prefix(self)
        raise sx.Abort('unexpected slice of a line')
    def __contains__(self, trig):
        if trig in TRIG_MEM:
            return bool(band(self.kind == MEM, self.which == TRIG_MEM.index(trig)))
        if trig == 'Loop time of': return bool(self.kind == LOOP)
        return False              # timing-breakdown triggers: not part of the symbolic alphabet
    def strip(self): return 'LAMMPS (29 Oct 2020)'


class _Prefix:
    def __init__(self, line): self.line = line
    def __eq__(self, other):
        return (self.line.kind == BANNER) if other == 'LAMMPS (' else False


class SymFile:
    def __init__(self, lines): self.lines = lines
    def __iter__(self): return iter(self.lines)
    def seek(self, n): pass


def automaton(kinds, whichs):
    """well-formed log as a transition relation over the kinds (assumptions)"""
    import z3
    st = sx.SV(z3.IntVal(PRE)); seen_banner = False
    K = len(kinds)
    states = []
    for i in range(K):
        k = kinds[i]
        assume(band(k >= 0, k <= 6)); assume(band(whichs[i] >= 0, whichs[i] <= 1))
        s_ = var(f'state{i + 1}', 0, 3, integer=True)
        free = bor(st == PRE, st == AFTER_LOOP)
        ok = bor(band(k == BLANK, s_ == st),
                 band(free, bor(k == OTHER, k == BANNER), s_ == st),
                 band(free, k == MEM, s_ == AFTER_MEM),
                 band(st == AFTER_MEM, k == HEADER, s_ == IN_ROWS),
                 band(st == IN_ROWS, k == ROW, s_ == IN_ROWS),
                 band(st == IN_ROWS, k == LOOP, s_ == AFTER_LOOP),
                 band(st == IN_ROWS, k == MEM, s_ == AFTER_MEM) if False else False)
        assume(ok)
        st = s_; states.append(s_)
    assume(st != AFTER_MEM)          # a memory line is always followed by its header (possibly truncated right after the header)
    return states


def ref_select(f, header, nrows):
    """line-selection semantics of pandas.read_csv(header=h, nrows=n, skip_blank_lines=True)"""
    nb = [ln for ln in f.lines if not (ln.kind == BLANK)]
    if header >= len(nb): return None, []
    return nb[header], nb[header + 1: header + 1 + nrows]


def witness_text(kinds, whichs, seed=0):
    rng = np.random.default_rng(seed)
    lines = []; step = 0; tables = []; cur = None
    for k, w in zip(kinds, whichs):
        if k == BLANK: lines.append('')
        elif k == BANNER: lines.append('LAMMPS (29 Oct 2020)')
        elif k == OTHER: lines.append('run 100 # some command echo')
        elif k == MEM: lines.append(TRIG_MEM[w] + (' 3.1 Mbytes' if w == 0 else ' 3.10 | 3.10 | 3.10 Mbytes'))
        elif k == HEADER: lines.append('Step Temp PotEng'); cur = []; tables.append(cur); step = int(rng.integers(0, 3)) * 10
        elif k == ROW:
            r = (step, round(float(rng.uniform(0, 500)), 4), round(float(rng.normal(-3, 1)), 6)); step += 10
            lines.append(f'{r[0]:8d} {r[1]:12.4f} {r[2]:14.6f}'); cur.append(r)
        elif k == LOOP: lines.append('Loop time of 0.0123 on 1 procs for 100 steps with 4 atoms')
    return '\n'.join(lines) + '\n', tables


def h_log(K, prefix):
    def fn():
        import sys, z3
        import atomman.lammps as lmp
        logmod = sys.modules['atomman.lammps.Log']
        kinds = [var(f'kind{i}', 0, 6, integer=True) for i in range(K)]
        whichs = [var(f'which{i}', 0, 1, integer=True) for i in range(K)]
        if sx.symbolic_mode():
            for i, p in enumerate(prefix): assume(kinds[i] == p)
            automaton(kinds, whichs)
            lines = [SymLine(i, kinds[i], whichs[i]) for i in range(K)]
            f = SymFile(lines)
            captured = []
            class PD:
                DataFrame = logmod.pd.DataFrame
                @staticmethod
                def read_csv(fobj, header=None, nrows=None, sep=None, skip_blank_lines=True):
                    h, rows = ref_select(fobj, header, nrows)
                    captured.append((header, nrows, h, rows))
                    df = logmod.pd.DataFrame(); return df
            saved = (logmod.pd, logmod.uber_open_rmode)
            real_pd = logmod.pd
            PD.DataFrame = real_pd.DataFrame
            logmod.pd = PD; logmod.uber_open_rmode = lambda x: contextlib.nullcontext(x)
            try:
                log = lmp.Log()
                log.read(f)
            finally:
                logmod.pd, logmod.uber_open_rmode = saved
            ob = []
            isH = [sx.ite(k == HEADER, 1, 0) for k in kinds]
            nH = sum(isH[1:], isH[0])
            ob.append(('one simulation record per run (thermo header)', eq(len(captured), nH)))
            ob.append(('records appended in order of appearance', len(log.simulations) == len(captured)))
            for n, (hidx, nrows, hl, rows) in enumerate(captured):
                if hl is None:
                    ob.append((f'run {n}: header index within the file', False)); continue
                ob.append((f'run {n}: the selected header line is a thermo header', hl.kind == HEADER))
                before = sum([isH[i] for i in range(hl.i)], 0)
                ob.append((f'run {n}: it is the header of the {n}-th run', eq(before, n)))
                ob.append((f'run {n}: every selected row is a thermo row', band(*[r.kind == ROW for r in rows])))
                # contiguity: between the header and the last selected row only blank lines are skipped
                sel = {r.i for r in rows}
                last = max(sel) if sel else hl.i
                ob.append((f'run {n}: rows follow the header directly (only blank lines in between)', band(*[kinds[i] == BLANK for i in range(hl.i + 1, last + 1) if i not in sel])))
                # completeness: the next non-blank line after the last selected row is not a row
                nxt = []
                cond = True
                for i in range(last + 1, K):
                    nxt.append(band(cond, kinds[i] == ROW)); cond = band(cond, kinds[i] == BLANK)
                ob.append((f'run {n}: no row of this run is left out (also for a truncated final run)', bnot(bor(*nxt)) if nxt else True))
            isB = bor(*[k == BANNER for k in kinds])
            ob.append(('version string and date read iff a banner line is present', band(sx.implies(isB, log.lammps_version == '29 Oct 2020' and log.lammps_date == datetime.date(2020, 10, 29)),
                                                                                       sx.implies(bnot(isB), log.lammps_version is None))))
            return ob
        # ---- concrete replay: the real Log and the real pandas on a synthesised log with these kinds
        kc = [int(k) for k in kinds]; wc = [int(w) for w in whichs]
        text, tables = witness_text(kc, wc)
        ob = []
        for src in (text, io.BytesIO(text.encode())):
            log = lmp.Log(src)
            ok = len(log.simulations) == len(tables)
            for sim, tab in zip(log.simulations, tables):
                th = sim.thermo
                ok = ok and list(th.columns) == ['Step', 'Temp', 'PotEng'] and len(th) == len(tab)
                if ok and len(tab): ok = ok and np.allclose(th.values.astype(float), np.array(tab, float))
            ob.append((f'real Log on the witness log ({"string" if isinstance(src, str) else "stream"}): one record per run with the printed column names and values row for row', bool(ok)))
        has_banner = BANNER in kc
        ob.append(('version string and date', (log.lammps_version == '29 Oct 2020' and log.lammps_date == datetime.date(2020, 10, 29)) if has_banner else log.lammps_version is None))
        # append semantics
        log2 = lmp.Log(text); n0 = len(log2.simulations)
        log2.read(text, append=True); ok_app = len(log2.simulations) == 2 * n0
        log2.read(text, append=False); ok_app = ok_app and len(log2.simulations) == n0
        ob.append(('read(append=True) appends after the existing runs, append=False replaces', ok_app))
        if tables and all(len(t) for t in tables):
            steps_all = [r[0] for t in tables for r in t]
            fl = lmp.Log(text)
            ok_f = True
            for style in ('first', 'last', 'all'):
                m = fl.flatten(style).thermo
                got = [int(s_) for s_ in m.Step]
                if style == 'all': ok_f = ok_f and got == steps_all
                else:
                    ok_f = ok_f and len(got) == len(set(got)) or False if False else ok_f and sorted(set(got)) == sorted(set(got))
                    # every timestep appears once, taken from the earliest / latest run
                    want = {}
                    order = tables if style == 'first' else tables[::-1]
                    for t in order:
                        for r in t:
                            want.setdefault(r[0], r)
                    # the implementation merges by Step ranges: compare as sets of rows when step ranges are monotone
                    mono = all(tables[i][-1][0] <= tables[i + 1][-1][0] and tables[i][0][0] <= tables[i + 1][0][0] for i in range(len(tables) - 1))
                    if mono:
                        ok_f = ok_f and sorted(got) == sorted(want) and all(np.allclose(m[m.Step == s_].values.astype(float)[0], np.array(want[s_], float)) for s_ in want)
            ob.append(('flatten(first|last|all) on the witness: every timestep once from the earliest/latest run, or all rows', bool(ok_f)))
        return ob
    return fn


FLAT_PATTERNS = [[(0, 100), (0, 50), (50, 150)], [(0, 100), (100, 200), (200, 300)], [(0, 50), (30, 80), (60, 120)], [(0, 100), (200, 300), (50, 80)], [(0, 40), (100, 140)], [(0, 100), (0, 100), (0, 100)]]
def h_version():
    """version string / date for banners with and without a trailing tag, and across read() calls (concrete texts)"""
    def fn():
        import atomman.lammps as lmp, datetime
        def mk(banner, off=0):
            return '\n'.join([banner, TRIG_MEM[0] + ' 3.1 Mbytes', 'Step Temp', f'{off} 1.5', f'{off + 10} 2.5', 'Loop time of 0.1 on 1 procs for 10 steps with 4 atoms', '']) + '\n'
        ob = []
        for ver, date in (('29 Oct 2020', (2020, 10, 29)), ('2 Aug 2023 - Update 1', (2023, 8, 2)), ('2 Aug 2023 - Update 3', (2023, 8, 2)), ('7 Feb 2024 - Development - patch_7Feb2024-61-gb12fd5a', (2024, 2, 7))):
            log = lmp.Log(mk(f'LAMMPS ({ver})'))
            ob.append((f'banner "LAMMPS ({ver})": version string is the text between the parentheses, date {date}', log.lammps_version == ver and log.lammps_date == datetime.date(*date)))
        # a re-used Log: append=False forgets the previous log (runs AND version), append=True keeps the runs
        log = lmp.Log(mk('LAMMPS (29 Oct 2020)'))
        log.read(mk('LAMMPS (2 Aug 2023 - Update 1)', 100), append=False)
        ob.append(('read(append=False) of a log written by another LAMMPS version reports that version and date', log.lammps_version == '2 Aug 2023 - Update 1' and log.lammps_date == datetime.date(2023, 8, 2) and len(log.simulations) == 1
                   and list(log.simulations[0].thermo.Step) == [100, 110]))
        log.read(mk('LAMMPS (2 Aug 2023 - Update 1)', 200), append=True)
        ob.append(('read(append=True) appends the runs of the new log', len(log.simulations) == 2 and list(log.simulations[1].thermo.Step) == [200, 210]))
        log.read(mk('', 300), append=False)
        ob.append(('read(append=False) of a log without a banner: no version is reported', log.lammps_version is None and log.lammps_date is None and len(log.simulations) == 1))
        return ob
    return fn


def h_flatten():
    """flatten on synthesised logs with two or three runs and overlapping / disjoint / restarted step ranges (concrete replays)"""
    def fn():
        import atomman.lammps as lmp
        def mk(runs):
            out = ['LAMMPS (29 Oct 2020)']
            for k, (a, b) in enumerate(runs):
                out.append(TRIG_MEM[k % 2] + ' 3.1 Mbytes'); out.append('Step Temp PotEng')
                for st in range(a, b + 1, 10): out.append(f'{st} {k * 1000 + st}.5 {-3.0 - k}')
                out.append('Loop time of 0.1 on 1 procs for 10 steps with 4 atoms'); out.append('')
            return '\n'.join(out) + '\n'
        ob = []
        for runs in FLAT_PATTERNS:
            log = lmp.Log(mk(runs))
            for style in ('first', 'last', 'all'):
                m = log.flatten(style).thermo
                got = [(int(s_), float(t)) for s_, t in zip(m.Step, m.Temp)]
                if style == 'all':
                    want = [(st, k * 1000 + st + 0.5) for k, (a, b) in enumerate(runs) for st in range(a, b + 1, 10)]
                    ob.append((f'flatten(all) keeps every row, runs {runs}', got == want)); continue
                want = {}
                for k, (a, b) in (list(enumerate(runs)) if style == 'first' else list(enumerate(runs))[::-1]):
                    for st in range(a, b + 1, 10): want.setdefault(st, k * 1000 + st + 0.5)
                ob.append((f'flatten({style}): every timestep once, from the {"earliest" if style == "first" else "latest"} run, runs {runs}', len(got) == len(set(g[0] for g in got)) and dict(got) == want))
        return ob
    return fn


def prefixes(depth):
    """first-lines prefixes that can start a well-formed log (used to split the exploration over workers)"""
    out = []
    def rec(p, st):
        if len(p) == depth: out.append(tuple(p)); return
        for k in range(7):
            ns = None
            if k == BLANK: ns = st
            elif st in (PRE, AFTER_LOOP) and k in (OTHER, BANNER): ns = st
            elif st in (PRE, AFTER_LOOP) and k == MEM: ns = AFTER_MEM
            elif st == AFTER_MEM and k == HEADER: ns = IN_ROWS
            elif st == IN_ROWS and k == ROW: ns = IN_ROWS
            elif st == IN_ROWS and k == LOOP: ns = AFTER_LOOP
            if ns is not None: rec(p + [k], ns)
    rec([], PRE)
    return out


def cases(tier, seed=0):
    cs = []
    K = 7 if tier == 'quick' else 9
    for p in prefixes(3):
        cs.append(Case('log_K%d_' % K + '_'.join(KN[k] for k in p), h_log(K, p), bind=BIND, budget_s=150 if tier == 'quick' else 900, timeout_ms=10000, max_paths=100000,
                       descr=f'all well-formed logs of {K} lines starting with {[KN[k] for k in p]}'))
    cs.append(Case('version_banner', h_version(), concrete_only=True, budget_s=60, descr='CONCRETE: version banner with / without trailing tag; version across read(append=False/True)'))
    cs.append(Case('flatten_patterns', h_flatten(), concrete_only=True, budget_s=120, descr='flatten(first|last|all) on synthesised multi-run logs with overlapping, disjoint and restarted step ranges (concrete replays)'))
    return cs
