# C07 Written LAMMPS data/dump and POSCAR files are well-formed and describe the system
import itertools, math, re
import numpy as np
from vlib.run import Case
from symx import core as sx
from symx.core import var, assume, eq, le, lt, sa, band, bor, bnot, alleq, close
from props.c01 import expect_vects

META = dict(
    explanation='The writers (dump.atom_data, dump.atom_dump, dump.table, dump.poscar, with System.wrap, atoms_df, unit conversion and the LAMMPS style tables) are executed on a symbolic cell with origin, 2 atoms with symbolic positions (inside and outside the cell), velocities, charges and an extra vector property; symbolic values reach the text as unique tokens (float_format "%s"), the text is read by an independent parser written from the LAMMPS read_data / dump and VASP POSCAR format descriptions, and tokens are mapped back to their terms so that the file contents are compared with the system by the solver.',
    functions=['atomman/dump/atom_data/dump.py:dump,box_content,atoms_content,info_content', 'atomman/dump/atom_data/atoms_prop_info.py', 'atomman/dump/atom_data/velocities_prop_info.py', 'atomman/dump/atom_dump/dump.py:dump,table_dump',
               'atomman/dump/atom_dump/process_prop_info.py', 'atomman/dump/table/dump.py:dump', 'atomman/dump/table/process_prop_info.py', 'atomman/dump/poscar/dump.py:dump', 'atomman/lammps/style.py:unit', 'atomman/core/System.py:wrap,atoms_df'],
    bounds=dict(quick='cells of LAMMPS form (lengths [1,10], tilts 0 or 1e-3..10, origin within 10), 2 atoms within +-50; data files: atom styles atomic, charge, full x unit styles metal, real, si, cgs x 3 periodicity settings, with and without velocities; dump files: position column variants pos/spos/upos, units metal/si; POSCAR: direct and Cartesian, symbolic scale factor',
                thorough='all 8 periodicity settings and more atom styles'),
    outside=['printed precision / float formats other than "%s" (number formatting is a C boundary)', 'potential= branch of the data-file writer', 'atom styles needing per-atom data that atomman does not define defaults for'],
    lemmas=[], cuts=['numbers are written through float_format="%s" so that symbolic values appear as tokens'],
    assumptions=['dead-zone assumption on tilts; atoms within +-50 so that the 1e-9 clean-up of an enlarged cell cannot remove a component (see C05)'],
    trusted=['the independent parsers in this module (written from the published format rules)', 'unit factors taken from atomman.unitconvert.unit by unit name (the style tables themselves are decided in C09)'],
)
BIND = ['atomman.core.Box', 'atomman.core.System', 'atomman.core.Atoms', 'atomman.unitconvert', 'atomman.dump.atom_data.dump', 'atomman.dump.atom_dump.dump', 'atomman.dump.table.dump', 'atomman.dump.poscar.dump']
TOK = re.compile(r'@@\d+@@')
# unit names per LAMMPS style, from the LAMMPS manual (independent of atomman.lammps.style)
LUNITS = {'metal': dict(length='angstrom', velocity=('angstrom', 'ps'), charge='e'), 'real': dict(length='angstrom', velocity=('angstrom', 'fs'), charge='e'),
          'si': dict(length='m', velocity=('m', 's'), charge='C'), 'cgs': dict(length='cm', velocity=('cm', 's'), charge=None)}
COLS = {'atomic': ['id', 'type', 'x', 'y', 'z'], 'charge': ['id', 'type', 'q', 'x', 'y', 'z'], 'full': ['id', 'mol', 'type', 'q', 'x', 'y', 'z']}


def num(s):
    if TOK.fullmatch(s): return sx.TOKENS[s]
    try: return int(s)
    except ValueError: return float(s)


def factor(name):
    import atomman.unitconvert as uc
    if isinstance(name, tuple): return float(uc.unit[name[0]]) / float(uc.unit[name[1]])
    return float(uc.unit[name])


def mk_system(pbc, natoms=2, with_velocity=False, with_charge=False, with_mol=False, inside=False):
    import atomman as am
    lx, ly, lz = [var(n, 1, 10) for n in ('lx', 'ly', 'lz')]
    xy, xz, yz = [var(n, -10, 10, deadzone=0.001) for n in ('xy', 'xz', 'yz')]
    O = [var(n, -10, 10) for n in ('ox', 'oy', 'oz')]
    V = expect_vects(lx, ly, lz, xy, xz, yz)
    box = am.Box(lx=lx, ly=ly, lz=lz, xy=xy, xz=xz, yz=yz, origin=O)
    if inside:
        S = [[var(f's{k}{i}', 0.01, 0.99) for i in range(3)] for k in range(natoms)]
        P = [[O[j] + sum(S[k][i] * V[i][j] for i in range(3)) for j in range(3)] for k in range(natoms)]
    else:
        P = [[var(f'p{k}{"xyz"[i]}', -50, 50) for i in range(3)] for k in range(natoms)]
    kw = {}
    Vel = Q = None
    if with_velocity:
        Vel = [[var(f'v{k}{i}', -5, 5) for i in range(3)] for k in range(natoms)]; kw['velocity'] = sa(Vel)
    if with_charge:
        Q = [var(f'q{k}', -2, 2) for k in range(natoms)]; kw['charge'] = sa(Q)
    if with_mol:
        kw['m_id'] = np.array([7, 9][:natoms])
    s = am.System(atoms=am.Atoms(pos=sa(P), atype=[2, 1][:natoms], **kw), box=box, pbc=pbc, symbols=['Al', 'Cu'])
    return s, dict(lx=lx, ly=ly, lz=lz, xy=xy, xz=xz, yz=yz, O=O, V=V, P=P, Vel=Vel, Q=Q)


# ------------------------------------------------------------------ independent LAMMPS data-file reader (read_data rules)
def parse_data(text):
    lines = text.split('\n')
    out = dict(natoms=None, natypes=None, box={}, sections={}, order=[])
    i = 0
    # header: first line is a comment/title (may be empty), then keyword lines until the first section
    hdr_kw = {'atoms': 'natoms', 'atom types': 'natypes'}
    i = 1
    while i < len(lines):
        ln = lines[i].split('#')[0].strip()
        if not ln: i += 1; continue
        m = re.match(r'^(\S+)\s+(atoms|atom types)$', ln)
        if m: out[hdr_kw[m.group(2)]] = int(m.group(1)); i += 1; continue
        m = re.match(r'^(\S+)\s+(\S+)\s+(xlo xhi|ylo yhi|zlo zhi)$', ln)
        if m:
            a, b = m.group(3).split(); out['box'][a] = num(m.group(1)); out['box'][b] = num(m.group(2)); i += 1; continue
        m = re.match(r'^(\S+)\s+(\S+)\s+(\S+)\s+xy xz yz$', ln)
        if m:
            out['box']['xy'], out['box']['xz'], out['box']['yz'] = num(m.group(1)), num(m.group(2)), num(m.group(3)); i += 1; continue
        break
    # sections: "Name [# style]" / blank / rows / blank
    while i < len(lines):
        raw = lines[i]
        if not raw.strip(): i += 1; continue
        name = raw.split('#')[0].strip(); style = raw.split('#')[1].strip() if '#' in raw else None
        if name not in ('Atoms', 'Velocities', 'Masses'): raise ValueError(f'unknown section header {raw!r}')
        if i + 1 >= len(lines) or lines[i + 1].strip(): raise ValueError('section header must be followed by a blank line')
        i += 2
        rows = []
        while i < len(lines) and lines[i].strip():
            rows.append([num(t) for t in lines[i].split()]); i += 1
        out['sections'][name] = dict(style=style, rows=rows); out['order'].append(name)
    return out


def inside_box(p, bx, pbc, tag):
    """LAMMPS: with tilt the atom must satisfy 0 <= s < 1 in the triclinic cell along periodic directions (<= 1 for shrink-wrapped)"""
    lx = bx['xhi'] - bx['xlo']; ly = bx['yhi'] - bx['ylo']; lz = bx['zhi'] - bx['zlo']
    xy, xz, yz = bx.get('xy', 0.0), bx.get('xz', 0.0), bx.get('yz', 0.0)
    q = [p[0] - bx['xlo'], p[1] - bx['ylo'], p[2] - bx['zlo']]
    # s_z = q_z/lz ; s_y = (q_y - s_z yz)/ly ; s_x = (q_x - s_y xy - s_z xz)/lx   -- cross-multiplied by positive lengths
    nz = q[2]; ny = q[1] * lz - nz * yz; nx = q[0] * ly * lz - ny * xy - nz * xz * ly
    dz, dy, dx = lz, ly * lz, lx * ly * lz
    ob = []
    for nm, n_, d_, per in (('x', nx, dx, pbc[0]), ('y', ny, dy, pbc[1]), ('z', nz, dz, pbc[2])):
        S = 1e5
        ob.append((f'{tag} within the written bounds along {nm}', band(le(0, n_, S), lt(n_, d_, S) if per else le(n_, d_, S))))
    return ob


def h_data(atom_style, units, pbc, with_velocity, inside):
    def fn():
        s, v = mk_system(pbc, with_velocity=with_velocity, with_charge=atom_style in ('charge', 'full'), with_mol=atom_style == 'full', inside=inside)
        text, info = s.dump('atom_data', atom_style=atom_style, units=units, float_format='%s')
        d = parse_data(text)
        L = factor(LUNITS[units]['length'])
        ob = [('header atom count == rows in the Atoms section == natoms', d['natoms'] == 2 and len(d['sections'].get('Atoms', {}).get('rows', [])) == 2),
              ('header atom types >= largest type written', d['natypes'] is not None and d['natypes'] >= 2),
              ('Atoms section precedes Velocities; only known sections', d['order'] == (['Atoms', 'Velocities'] if with_velocity else ['Atoms'])),
              ('Atoms section labelled with the atom style', d['sections']['Atoms']['style'] == atom_style)]
        bx = d['box']
        for a, b in (('xlo', 'xhi'), ('ylo', 'yhi'), ('zlo', 'zhi')):
            ob.append((f'{a} < {b}', lt(bx[a], bx[b])))
        tilted = 'xy' in bx
        nV = s.box.vects; nO = s.box.origin          # the (possibly enlarged) cell of the wrapped system
        ob.append(('tilt line present iff a tilt factor is non-zero', band(*[eq(nV[i][j], 0) for i, j in ((1, 0), (2, 0), (2, 1))]) if not tilted else bnot(band(*[eq(nV[i][j], 0) for i, j in ((1, 0), (2, 0), (2, 1))]))))
        S = 1e3
        ob.append(('written bounds and tilts are the cell of the system in the style\'s length unit',
                   band(eq(bx['xlo'] * L, nO[0], S), eq(bx['ylo'] * L, nO[1], S), eq(bx['zlo'] * L, nO[2], S), eq((bx['xhi'] - bx['xlo']) * L, nV[0][0], S), eq((bx['yhi'] - bx['ylo']) * L, nV[1][1], S),
                        eq((bx['zhi'] - bx['zlo']) * L, nV[2][2], S), eq(bx.get('xy', 0.0) * L, nV[1][0], S), eq(bx.get('xz', 0.0) * L, nV[2][0], S), eq(bx.get('yz', 0.0) * L, nV[2][1], S))))
        rows = d['sections']['Atoms']['rows']
        cols = COLS[atom_style]
        ncol = {len(r) for r in rows}
        ob.append((f'atom lines have the {len(cols)} columns of atom_style {atom_style} (+3 image flags or none)', ncol in ({len(cols)}, {len(cols) + 3})))
        if ncol not in ({len(cols)}, {len(cols) + 3}): return ob
        hasimg = ncol == {len(cols) + 3}
        ob.append(('atom ids are 1..N, unique', sorted(r[0] for r in rows) == [1, 2]))
        V0 = v['V']
        for r in rows:
            k = r[0] - 1; rec = dict(zip(cols, r))
            ob.append((f'atom {k}: type', rec['type'] == [2, 1][k]))
            p = [rec['x'], rec['y'], rec['z']]
            ob += inside_box(p, bx, pbc, f'atom {k}')
            img = r[len(cols):] if hasimg else [0, 0, 0]
            for j in range(3):
                ob.append((f'atom {k}: written position + image flags . cell == original position [{j}]',
                           eq(p[j] * L + sum(img[i] * (nV[i][j]) for i in range(3)), v['P'][k][j], S)))
            if 'q' in rec:
                Qf = factor(LUNITS[units]['charge']) if LUNITS[units]['charge'] else None
                if Qf is not None: ob.append((f'atom {k}: charge in the style\'s unit', eq(rec['q'] * Qf, v['Q'][k], 10)))
            if 'mol' in rec: ob.append((f'atom {k}: molecule id', rec['mol'] == [7, 9][k]))
        if with_velocity:
            Vf = factor(LUNITS[units]['velocity'])
            vr = d['sections']['Velocities']['rows']
            ob.append(('Velocities section: one line per atom, id + 3 components', len(vr) == 2 and all(len(r) == 4 for r in vr) and sorted(r[0] for r in vr) == [1, 2]))
            for r in vr:
                k = r[0] - 1
                ob.append((f'atom {k}: velocity in the style\'s unit', band(*[eq(r[1 + j] * Vf, v['Vel'][k][j], 100) for j in range(3)])))
        # the command snippet names what was actually used
        bfl = ' '.join('p' if x else 'm' for x in pbc)
        ob.append(('info names the unit style used', re.search(r'^units\s+' + units + r'\s*$', info, re.M) is not None))
        ob.append(('info names the atom style used', re.search(r'^atom_style\s+' + atom_style + r'\s*$', info, re.M) is not None))
        ob.append(('info names the boundary flags used', re.search(r'^boundary\s+' + bfl + r'\s*$', info, re.M) is not None))
        return ob
    return fn


# ------------------------------------------------------------------ independent LAMMPS dump-file reader
def parse_dump(text):
    lines = text.split('\n')
    out = {}; i = 0
    while i < len(lines):
        ln = lines[i]
        if not ln.startswith('ITEM:'):
            if ln.strip(): raise ValueError(f'unexpected line {ln!r}')
            i += 1; continue
        item = ln[5:].strip()
        if item == 'TIMESTEP': out['timestep'] = int(lines[i + 1]); i += 2
        elif item == 'NUMBER OF ATOMS': out['natoms'] = int(lines[i + 1]); i += 2
        elif item.startswith('BOX BOUNDS'):
            flags = item[len('BOX BOUNDS'):].split()
            out['tilted'] = flags[:3] == ['xy', 'xz', 'yz']
            out['bflags'] = flags[3:] if out['tilted'] else flags
            out['bounds'] = [[num(t) for t in lines[i + 1 + k].split()] for k in range(3)]; i += 4
        elif item.startswith('ATOMS'):
            out['columns'] = item.split()[1:]
            rows = []; i += 1
            while i < len(lines) and lines[i].strip() and not lines[i].startswith('ITEM:'):
                rows.append([num(t) for t in lines[i].split()]); i += 1
            out['rows'] = rows
        else: raise ValueError(f'unknown item {item!r}')
    return out


def smin(*xs):
    m = xs[0]
    for x in xs[1:]: m = sx.ite(x < m, x, m) if (sx.is_sym(x) or sx.is_sym(m)) else min(x, m)
    return m
def smax(*xs):
    m = xs[0]
    for x in xs[1:]: m = sx.ite(x > m, x, m) if (sx.is_sym(x) or sx.is_sym(m)) else max(x, m)
    return m


def h_dumpfile(units, pbc, variant):
    def fn():
        s, v = mk_system(pbc, with_velocity=True, with_charge=True)
        kw = {}
        if variant != 'pos':
            kw = dict(prop_name=['atom_id', 'atype', variant, 'velocity', 'charge'])
        text = s.dump('atom_dump', lammps_units=units, float_format='%s', **kw)
        d = parse_dump(text)
        L = factor(LUNITS[units]['length']); S = 1e3
        V = v['V']; O = v['O']
        ob = [('NUMBER OF ATOMS == rows == natoms', d.get('natoms') == 2 and len(d.get('rows', [])) == 2), ('timestep written', d.get('timestep') == 0),
              ('boundary flags pp/fm follow the periodicity', d['bflags'] == ['pp' if x else 'fm' for x in pbc])]
        tilts = [V[1][0], V[2][0], V[2][1]]
        ob.append(('tilted header iff a tilt factor is non-zero', bnot(band(*[eq(t, 0) for t in tilts])) if d['tilted'] else band(*[eq(t, 0) for t in tilts])))
        b = d['bounds']
        ob.append(('each bounds line has 2 (orthogonal) or 3 (tilted) numbers', all(len(r) == (3 if d['tilted'] else 2) for r in b)))
        xy, xz, yz = [t / L for t in tilts]
        xlo, ylo, zlo = O[0] / L, O[1] / L, O[2] / L; xhi, yhi, zhi = xlo + V[0][0] / L, ylo + V[1][1] / L, zlo + V[2][2] / L
        ob.append(('bounding-box convention: xlo_bound = xlo + min(0,xy,xz,xy+xz), xhi_bound = xhi + max(...), ylo/yhi with yz, z unchanged',
                   band(eq(b[0][0], xlo + smin(0.0, xy, xz, xy + xz), S), eq(b[0][1], xhi + smax(0.0, xy, xz, xy + xz), S), eq(b[1][0], ylo + smin(0.0, yz), S), eq(b[1][1], yhi + smax(0.0, yz), S), eq(b[2][0], zlo, S), eq(b[2][1], zhi, S))))
        ob.append(('lo < hi for every bound', band(lt(b[0][0], b[0][1]), lt(b[1][0], b[1][1]), lt(b[2][0], b[2][1]))))
        if d['tilted']:
            ob.append(('tilt factors in the third column, in the style\'s length unit', band(eq(b[0][2], xy, S), eq(b[1][2], xz, S), eq(b[2][2], yz, S))))
        names = {'pos': ['x', 'y', 'z'], 'spos': ['xs', 'ys', 'zs'], 'upos': ['xu', 'yu', 'zu']}[variant]
        want_cols = ['id', 'type'] + names + ['vx', 'vy', 'vz', 'q']
        ob.append(('ATOMS header names the columns', sorted(d['columns']) == sorted(want_cols)))
        if sorted(d['columns']) != sorted(want_cols): return ob
        ob.append(('rows have one value per column; ids unique 1..N', all(len(r) == len(d['columns']) for r in d['rows']) and sorted(dict(zip(d['columns'], r))['id'] for r in d['rows']) == [1, 2]))
        Vf = factor(LUNITS[units]['velocity']); Qf = factor(LUNITS[units]['charge'])
        for r in d['rows']:
            rec = dict(zip(d['columns'], r)); k = rec['id'] - 1
            P = v['P'][k]
            if variant in ('pos', 'upos'):
                ob.append((f'atom {k}: {names} are the Cartesian position in the style\'s length unit', band(*[eq(rec[names[j]] * L, P[j], S) for j in range(3)])))
            else:
                ob.append((f'atom {k}: {names} are box-relative coordinates (origin + s . cell == position)', band(*[eq(O[j] + sum(rec[names[i]] * V[i][j] for i in range(3)), P[j], S) for j in range(3)])))
            ob.append((f'atom {k}: type, velocity, charge', band(rec['type'] == [2, 1][k], *[eq(rec[n] * Vf, v['Vel'][k][j], 100) for j, n in enumerate(('vx', 'vy', 'vz'))], eq(rec['q'] * Qf, v['Q'][k], 10))))
        return ob
    return fn


def h_table():
    """generic table writer with an explicit column-conversion table (units, shapes, scaled)"""
    def fn():
        s, v = mk_system((True, True, True), with_velocity=True)
        text, pinfo = s.dump('table', prop_name=['atype', 'pos', 'velocity'], unit=[None, 'scaled', 'angstrom/ps'], float_format='%s', header=True, return_prop_info=True)
        lines = [l for l in text.split('\n') if l.strip()]
        hdr = lines[0].split(); rows = [[num(t) for t in l.split()] for l in lines[1:]]
        ob = [('header names one column per scalar component', hdr == ['atype', 'pos[0]', 'pos[1]', 'pos[2]', 'velocity[0]', 'velocity[1]', 'velocity[2]']), ('one row per atom', len(rows) == 2 and all(len(r) == 7 for r in rows))]
        if hdr != ['atype', 'pos[0]', 'pos[1]', 'pos[2]', 'velocity[0]', 'velocity[1]', 'velocity[2]'] or len(rows) != 2: return ob
        Vf = factor(('angstrom', 'ps')); V = v['V']; O = v['O']
        for k, r in enumerate(rows):
            ob.append((f'row {k}: type', r[0] == [2, 1][k]))
            ob.append((f'row {k}: scaled position (origin + s . cell == position)', band(*[eq(O[j] + sum(r[1 + i] * V[i][j] for i in range(3)), v['P'][k][j], 1e3) for j in range(3)])))
            ob.append((f'row {k}: velocity in the requested unit', band(*[eq(r[4 + j] * Vf, v['Vel'][k][j], 100) for j in range(3)])))
        ob.append(('returned conversion table records names, shapes and units', [(p['prop_name'], tuple(p['shape']), p['unit']) for p in pinfo] == [('atype', (), None), ('pos', (3,), 'scaled'), ('velocity', (3,), 'angstrom/ps')]))
        return ob
    return fn


# ------------------------------------------------------------------ independent POSCAR reader (VASP wiki rules)
def parse_poscar(text):
    lines = text.split('\n')
    out = dict(comment=lines[0], scale=num(lines[1].strip()), lattice=[[num(t) for t in lines[2 + k].split()] for k in range(3)])
    i = 5
    if not re.fullmatch(r'[\d\s]+', lines[i].strip()): out['symbols'] = lines[i].split(); i += 1
    out['counts'] = [int(t) for t in lines[i].split()]; i += 1
    if lines[i].strip()[:1] in 'sS': i += 1          # selective dynamics
    out['cartesian'] = lines[i].strip()[:1] in 'cCkK'; i += 1
    out['coords'] = [[num(t) for t in lines[i + k].split()[:3]] for k in range(sum(out['counts']))]
    return out


def h_poscar(coordstyle, symbolic_scale):
    def fn():
        import atomman as am
        lx, ly, lz = [var(n, 1, 10) for n in ('lx', 'ly', 'lz')]
        xy, xz, yz = [var(n, -10, 10, deadzone=0.001) for n in ('xy', 'xz', 'yz')]
        V = expect_vects(lx, ly, lz, xy, xz, yz)
        box = am.Box(lx=lx, ly=ly, lz=lz, xy=xy, xz=xz, yz=yz)
        Sc = [[var(f's{k}{i}', 0, 1) for i in range(3)] for k in range(3)]
        P = [[sum(Sc[k][i] * V[i][j] for i in range(3)) for j in range(3)] for k in range(3)]
        s = am.System(atoms=am.Atoms(pos=sa(P), atype=[2, 1, 2]), box=box, symbols=['Al', 'Cu'])
        sc = var('scale', 0.5, 4) if symbolic_scale else 1.0
        text = s.dump('poscar', coordstyle=coordstyle, box_scale=sc, float_format='%s', header='made by the check')
        d = parse_poscar(text)
        ob = [('comment line', d['comment'] == 'made by the check'), ('species line lists the symbols', d.get('symbols') == ['Al', 'Cu']), ('counts per species in type order', d['counts'] == [1, 2]),
              ('coordinate mode line', d['cartesian'] == (coordstyle[0] in 'cCkK'))]
        A = d['scale']
        S = 1e3
        ob.append(('scale factor x lattice lines == cell vectors', band(*[eq(A * d['lattice'][i][j], V[i][j], S) for i in range(3) for j in range(3)])))
        order = [1, 0, 2]                       # atoms grouped by type: type 1 first (atom 1), then the type-2 atoms in their order
        for n, k in enumerate(order):
            c = d['coords'][n]
            if d['cartesian']:
                # VASP: Cartesian coordinates are multiplied by the universal scaling factor, like the lattice vectors
                ob.append((f'atom {k}: scale factor x Cartesian line == position', band(*[eq(A * c[j], P[k][j], S) for j in range(3)])))
            else:
                ob.append((f'atom {k}: direct coordinates . (scale x lattice) == position', band(*[eq(sum(c[i] * A * d['lattice'][i][j] for i in range(3)), P[k][j], S) for j in range(3)])))
        return ob
    return fn


# which quantity of the LAMMPS unit table each per-atom property is expressed in (LAMMPS read_data / dump documentation)
QUANTITY = {'pos': 'length', 'spos': 'scaled', 'upos': 'length', 'supos': 'scaled', 'charge': 'charge', 'mu': 'dipole', 'mu_mag': 'dipole', 'mass': 'mass', 'density': 'density', 'diameter': 'length', 'radius': 'length',
            'eradius': 'length', 'cradius': 'length', 'kradius': 'length', 'volume': None, 'velocity': 'velocity', 'ang_velocity': 'ang-vel', 'ang_momentum': 'ang-mom', 'eradial_velocity': 'velocity', 'force': 'force', 'boximage': 'scaled',
            'torque': ('force', 'length')}
ID_LIKE = {'a_id', 'atom_id', 'm_id', 'p_id', 'p_id_plus1', 'atype', 'element', 'bflag', 'eflag', 'lflag', 'tflag', 'espin', 'e_id', 'a_template', 'm_template', 'cs_re', 'cs_im'}
ASTYLES = ['angle', 'atomic', 'body', 'bond', 'charge', 'dipole', 'electron', 'ellipsoid', 'full', 'line', 'meso', 'molecular', 'peri', 'smd', 'sphere', 'template', 'tri', 'wavepacket']
USTYLES = ['real', 'metal', 'si', 'cgs', 'electron', 'micro', 'nano']


def h_tables():
    """every column of every atom_style / unit style is converted with the unit of ITS quantity (exhaustive enumeration of the
    conversion tables of the data-file and dump-file writers; the unit strings themselves are decided dimensionally in C09)"""
    def fn():
        from atomman.dump.atom_data.atoms_prop_info import atoms_prop_info
        from atomman.dump.atom_data.velocities_prop_info import velocities_prop_info
        from atomman.dump.atom_dump.process_prop_info import process_prop_info as dpi
        from atomman.lammps import style
        bad = []; n = 0
        def want(prop, tab):
            q = QUANTITY.get(prop, 'unknown')
            if q == 'unknown': return 'unknown'
            if q is None or q == 'scaled': return q
            if isinstance(q, tuple): return '*'.join(tab[x] for x in q)
            return tab.get(q, 'unknown')
        for un in USTYLES:
            tab = style.unit(un)
            for st in ASTYLES:
                for getter, nm in ((atoms_prop_info, 'Atoms'), (velocities_prop_info, 'Velocities')):
                    try:
                        info = getter(st, un)
                    except KeyError:
                        continue          # the unit style does not define a quantity this atom style needs (documented LAMMPS limitation)
                    except Exception as e:
                        bad.append((nm, st, un, repr(e))); continue
                    for p in info:
                        n += 1
                        pn = p['prop_name']
                        if pn in ID_LIKE:
                            if p.get('unit') is not None: bad.append((nm, st, un, pn, 'id-like column with a unit'))
                            continue
                        w = want(pn, tab)
                        if w == 'unknown': continue
                        if p.get('unit') != w: bad.append((nm, st, un, pn, p.get('unit'), w))
            for p in dpi(prop_name=['atom_id', 'atype', 'pos', 'spos', 'upos', 'velocity', 'force', 'charge', 'mu', 'radius', 'diameter', 'mass', 'ang_velocity', 'ang_momentum', 'torque'], lammps_units=un):
                n += 1
                pn = p['prop_name']
                if pn in ID_LIKE: continue
                w = want(pn, tab)
                if w != 'unknown' and p.get('unit') != w: bad.append(('dump', un, pn, p.get('unit'), w))
        return [(f'all {n} column entries of the data-file (18 atom styles x 7 unit styles) and dump-file conversion tables use the unit of their quantity', not bad), ('details', not bad or print(bad[:8]) is not None and False)]
    return fn


def pstr(p): return ''.join('T' if x else 'F' for x in p)


def cases(tier, seed=0):
    cs = []
    pbcs = [(True, True, True), (True, False, True), (False, True, False)] if tier == 'quick' else list(itertools.product([True, False], repeat=3))
    combos = [('atomic', 'metal', False), ('charge', 'real', True), ('full', 'si', False), ('atomic', 'cgs', True), ('charge', 'metal', False)]
    for (st, un, vel) in combos:
        for pbc in pbcs:
            if tier == 'quick' and pbc != (True, True, True) and (st, un) not in (('atomic', 'metal'), ('charge', 'real')): continue
            cs.append(Case(f'data_{st}_{un}_{pstr(pbc)}{"_vel" if vel else ""}', h_data(st, un, pbc, vel, False), bind=BIND, budget_s=150, timeout_ms=15000, max_paths=400, weight=2 if pbc != (True, True, True) else 1,
                           descr=f'LAMMPS data file: atom_style {st}, units {un}, pbc {pstr(pbc)}, velocities={vel}, atoms anywhere'))
    cs.append(Case('data_atomic_metal_TTT_inside', h_data('atomic', 'metal', (True, True, True), False, True), bind=BIND, budget_s=150, timeout_ms=15000, max_paths=400, descr='data file, atoms inside the cell (no image flags)'))
    for un, pbc, var_ in (('metal', (True, True, True), 'pos'), ('si', (True, False, True), 'spos'), ('metal', (False, True, True), 'upos'), ('real', (True, True, False), 'pos')):
        cs.append(Case(f'dumpfile_{un}_{pstr(pbc)}_{var_}', h_dumpfile(un, pbc, var_), bind=BIND, budget_s=150, timeout_ms=15000, max_paths=400, descr=f'LAMMPS dump file: units {un}, pbc {pstr(pbc)}, position columns {var_}'))
    cs.append(Case('conversion_tables', h_tables(), concrete_only=True, budget_s=60, descr='exhaustive enumeration of the per-atom column conversion tables (unit key per quantity)'))
    cs.append(Case('table', h_table(), bind=BIND, budget_s=120, timeout_ms=15000, descr='generic table with a column-conversion table'))
    for cstyle in ('direct', 'Cartesian', 'kartesian', 'Direct'):      # VASP reads the first letter: c, C, k, K select Cartesian
        for ss in ((False, True) if cstyle in ('direct', 'Cartesian') else (True,)):
            cs.append(Case(f'poscar_{cstyle}{"_scale" if ss else ""}', h_poscar(cstyle, ss), bind=BIND, budget_s=120, timeout_ms=15000, descr=f'POSCAR, {cstyle} coordinates, {"symbolic scale factor" if ss else "scale 1"}'))
    return cs
