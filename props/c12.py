# C12 Volterra dislocation fields satisfy elasticity and carry the Burgers vector
import itertools, math
import numpy as np
from vlib.run import Case
from symx import core as sx
from symx.core import var, assume, eq, le, sa, band, bor, alleq, close
from symx.dual import Dual, seed

META = dict(
    explanation='IsotropicVolterraDislocation.theta/displacement/strain/stress/K_tensor and VolterraDislocation.K_coeff/preln are executed with symbolic shear modulus, Poisson ratio, Burgers components and field point; the field point is a pair of dual numbers over symbolic values, so the code\'s own displacement and stress are differentiated exactly (forward-mode AD with opaque log/arctan) and compared with the code\'s closed-form strain and stress. The Stroh solver (LAPACK eig) is exercised on concrete materials as replayed samples only.',
    functions=['atomman/defect/IsotropicVolterraDislocation.py:theta,displacement,strain,stress,K_tensor,solve', 'atomman/defect/VolterraDislocation.py:solve,__mn_check,K_coeff,preln',
               'atomman/defect/Stroh.py:solve,displacement,strain,stress,K_tensor (replayed samples)', 'atomman/defect/solve_volterra_dislocation.py'],
    bounds=dict(quick='isotropic: all mu in [0.1,1000], nu in [0,0.49], Burgers components (edge, screw) in [-10,10], all field points with |x|,|y| in [0.01,100] in each open quadrant, 6 assignments of the m, n axes to Cartesian axes; Stroh: 5 concrete materials x 2 orientations x 24 random points (seeded)',
                thorough='same with more Stroh samples'),
    outside=['Stroh solver for all positive-definite stiffness tensors (eigen-decomposition is a LAPACK boundary): concrete replays only, NOT solver verdicts', 'points on the coordinate axes x = 0 or y = 0 (handled by the theta branch cases only)', 'IEEE-754 rounding'],
    lemmas=['L3 differentiation rules: d log t = dt/t, d arctan t = dt/(1+t^2), sum/product/quotient/chain rule (symx.dual)', 'arctan is continuous and odd (used to read the branch structure of theta as the Burgers jump)'],
    cuts=['the solver object is built with concrete isotropic constants and its private mu, nu and Burgers vector are then replaced by symbolic values (the orientation logic of solve() is exercised separately on concrete inputs)'],
    assumptions=['Burgers vector in the slip plane (b.n = 0) for the isotropic solver'], trusted=[],
)
BIND = ['atomman.defect.IsotropicVolterraDislocation', 'atomman.defect.VolterraDislocation', 'atomman.core.ElasticConstants', 'atomman.tools.axes_check']
AX = {'x': [1.0, 0.0, 0.0], 'y': [0.0, 1.0, 0.0], 'z': [0.0, 0.0, 1.0]}
QUADS = {'pp': (1, 1), 'np': (-1, 1), 'nn': (-1, -1), 'pn': (1, -1)}


def make_solver(m, n):
    """concrete construction, then symbolic material and Burgers vector (state constructed directly)"""
    import atomman as am
    C = am.ElasticConstants(mu=1.0, nu=0.3)
    d = am.defect.IsotropicVolterraDislocation(C, np.array(AX[m]) * 1.0, m=m, n=n)
    mu = var('mu', 0.1, 1000); nu = var('nu', 0, 0.49)
    be = var('b_edge', -10, 10); bs = var('b_screw', -10, 10)
    mv = np.array(AX[m]); nv = np.array(AX[n]); xi = np.cross(mv, nv)
    d._IsotropicVolterraDislocation__mu = mu; d._IsotropicVolterraDislocation__nu = nu
    b = sa([be * float(mv[j]) + bs * float(xi[j]) for j in range(3)])
    d._VolterraDislocation__burgers = b
    return d, mu, nu, be, bs, mv, nv, xi


def field_point(quad, mv, nv, xi, dual):
    sxq, syq = QUADS[quad]
    x = var('x', 0.01, 100) * sxq; y = var('y', 0.01, 100) * syq; z = var('z', -5, 5)
    if dual:
        X, Y = seed([x, y])
        pos = np.empty(3, dtype=object)
        for j in range(3):
            pos[j] = X * float(mv[j]) + Y * float(nv[j]) + z * float(xi[j])
        return pos.view(sx.SA), x, y
    return sa([x * float(mv[j]) + y * float(nv[j]) + z * float(xi[j]) for j in range(3)]), x, y


def local(T, mv, nv, xi):
    """components of a 3x3 tensor (object array) in the (m, n, xi) frame"""
    R = [mv, nv, xi]
    return [[sum(float(R[a][i]) * T[i, j] * float(R[b][j]) for i in range(3) for j in range(3)) for b in range(3)] for a in range(3)]


def h_strain(m, n, quad):
    def fn():
        d, mu, nu, be, bs, mv, nv, xi = make_solver(m, n)
        R = [mv, nv, xi]
        pos0, x, y = field_point(quad, mv, nv, xi, False)
        if sx.symbolic_mode():
            pos, x, y = field_point(quad, mv, nv, xi, True)
            u = d.displacement(pos)                    # dual numbers: value and d/dx, d/dy (x along m, y along n)
            if np.shape(u) != (3,): return [('displacement shape', False)]
            ul = [sum(float(R[a][j]) * u[j] for j in range(3)) for a in range(3)]        # components along m, n, xi
            G = [[ul[a].d[0], ul[a].d[1], 0.0] for a in range(3)]                      # du_a/dx_b (no z dependence)
        else:
            # replay on the real float code: central finite differences of the displacement
            h = 1e-6 * max(1.0, abs(x), abs(y)); p0 = np.asarray(pos0, float)
            G = [[0.0] * 3 for _ in range(3)]
            for b_, dirv in enumerate((mv, nv)):
                up = d.displacement(p0 + h * dirv); dn = d.displacement(p0 - h * dirv)
                for a in range(3): G[a][b_] = float(np.dot(R[a], (up - dn))) / (2 * h)
        e = local(d.strain(pos0), mv, nv, xi)
        S = 1e4 if sx.symbolic_mode() else 1.0
        ob = []
        for a in range(3):
            for b in range(a, 3):
                ob.append((f'strain[{a}{b}] == (du_{a}/dx_{b} + du_{b}/dx_{a})/2 (derivative of the code\'s own displacement)', eq(e[a][b], (G[a][b] + G[b][a]) / 2, S)))
                ob.append((f'strain[{a}{b}] symmetric', eq(e[a][b], e[b][a])))
        return ob
    return fn


def h_stress(m, n, quad):
    def fn():
        d, mu, nu, be, bs, mv, nv, xi = make_solver(m, n)
        pos0, x, y = field_point(quad, mv, nv, xi, False)
        e = local(d.strain(pos0), mv, nv, xi); s = local(d.stress(pos0), mv, nv, xi)
        lam = 2 * mu * nu / (1 - 2 * nu)
        tr = e[0][0] + e[1][1] + e[2][2]
        ob = []
        for a in range(3):
            for b in range(3):
                ob.append((f'stress[{a}{b}] == 2 mu strain + lambda tr(strain) delta', eq(s[a][b], 2 * mu * e[a][b] + (lam * tr if a == b else 0), 1e4 if sx.symbolic_mode() else None)))
        # divergence free: differentiate the code's stress
        if sx.symbolic_mode():
            posd, _, _ = field_point(quad, mv, nv, xi, True)
            sd = local(d.stress(posd), mv, nv, xi)
            divs = [sd[a][0].d[0] + sd[a][1].d[1] for a in range(3)]
        else:
            h = 1e-6 * max(1.0, abs(x), abs(y)); p0 = np.asarray(pos0, float); R = [mv, nv, xi]
            gs = [(np.array(local(d.stress(p0 + h * dv), mv, nv, xi), float) - np.array(local(d.stress(p0 - h * dv), mv, nv, xi), float)) / (2 * h) for dv in (mv, nv)]
            divs = [gs[0][a][0] + gs[1][a][1] for a in range(3)]
        for a in range(3):
            ob.append((f'div(stress)[{a}] == 0', eq(divs[a], 0, 1e4 if sx.symbolic_mode() else max(1.0, float(abs(np.array(s, float)).max()) / max(abs(x), abs(y)) * 100))))
        # 1/r fall-off: strain(k p) == strain(p)/k
        k = var('k', 0.1, 10)
        e2 = local(d.strain(pos0 * k), mv, nv, xi)
        for a in range(3):
            for b in range(a, 3):
                ob.append((f'strain[{a}{b}](k p) == strain(p)/k', eq(e2[a][b] * k, e[a][b], 1e4)))
        return ob
    return fn


def h_theta(m, n):
    """branch structure of theta == four-quadrant arctangent on (-pi, pi]; hence the Burgers jump across the cut x<0 and continuity across x>0"""
    def fn():
        d, mu, nu, be, bs, mv, nv, xi = make_solver(m, n)
        xa = var('x', 0.01, 100); ya = var('y', 0.01, 100)
        P = lambda x, y: sa([[x * float(mv[j]) + y * float(nv[j]) for j in range(3)]])
        at = lambda t: sx.npshim.arctan(t) if sx.is_sym(t) else math.atan(t)
        pi = math.pi
        ob = []
        cases_ = [('x>0,y>0', xa, ya, lambda: at(ya / xa)), ('x>0,y<0', xa, -ya, lambda: at(-ya / xa)),
                  ('x<0,y>0', -xa, ya, lambda: at(ya / -xa) + pi), ('x<0,y<0', -xa, -ya, lambda: at(-ya / -xa) - pi)]
        th = {}
        for nm, x, y, want in cases_:
            t = d.theta(P(x, y))[0]; th[nm] = t
            ob.append((f'theta ({nm}) == arctan(y/x) on the branch of atan2', eq(t, want())))
        # points on the axes (concrete: x = 0 divides by zero, which NumPy turns into inf and the code then overwrites)
        if not sx.symbolic_mode():      # evaluated in the concrete witness replay only (needs NumPy's x/0 = inf semantics)
            Pc = lambda x, y: np.array([[x * float(mv[j]) + y * float(nv[j]) for j in range(3)]])
            ob.append(('theta(0, y>0) == pi/2', abs(float(d.theta(Pc(0.0, 1.7))[0]) - pi / 2) < 1e-12))
            ob.append(('theta(0, y<0) == -pi/2', abs(float(d.theta(Pc(0.0, -1.7))[0]) + pi / 2) < 1e-12))
        ob.append(('theta(x>0, 0) == 0', eq(d.theta(P(xa, 0.0))[0], 0.0)))
        # displacement jump across the cut: u(x<0, +y) - u(x<0, -y) = b (theta+ - theta-)/(2 pi) + odd regular part, -> b as y -> 0+
        up = d.displacement(P(-xa, ya)[0]); dn = d.displacement(P(-xa, -ya)[0])
        R = [mv, nv, xi]
        jump = [sum(float(R[a][j]) * (up[j] - dn[j]) for j in range(3)) for a in range(3)]
        dth = th['x<0,y>0'] - th['x<0,y<0']
        reg = 2 * (-xa) * ya / (2 * (1 - nu) * (xa * xa + ya * ya))
        ob.append(('jump of the edge component across the cut == b_e ((theta+ - theta-) + regular odd term)/(2 pi)', eq(jump[0] * (2 * pi), be * (dth + reg), 1e4)))
        ob.append(('jump of the normal component across the cut == 0', eq(jump[1], 0, 1e4)))
        ob.append(('jump of the screw component across the cut == b_s (theta+ - theta-)/(2 pi)', eq(jump[2] * (2 * pi), bs * dth, 1e4)))
        ob.append(('theta+ - theta- == 2 pi + arctan(y/x) - arctan(-y/x)  (-> 2 pi as y -> 0: the jump is the Burgers vector)', eq(dth, 2 * pi + at(ya / -xa) - at(-ya / -xa))))
        return ob
    return fn


def h_ktensor(m, n):
    def fn():
        d, mu, nu, be, bs, mv, nv, xi = make_solver(m, n)
        K = d.K_tensor
        Kl = local(K, mv, nv, xi)
        ob = [('K_tensor symmetric', band(*[eq(K[i, j], K[j, i]) for i in range(3) for j in range(i)]))]
        ke = mu / (1 - nu)
        for a in range(3):
            for b in range(3):
                want = (ke if a < 2 else mu) if a == b else 0.0
                ob.append((f'K[{a}{b}] in the (m,n,xi) frame == diag(mu/(1-nu), mu/(1-nu), mu)', eq(Kl[a][b], want, 1e4)))
        ob.append(('K_tensor positive definite (its eigenvalues mu/(1-nu), mu are positive)', band(ke > 0 if sx.is_sym(ke) else ke > 0, True)))
        b2 = be * be + bs * bs
        if sx.symbolic_mode(): assume(b2 >= 0.01)
        ob.append(('K_coeff b.b == b.K.b == K_e b_e^2 + K_s b_s^2', eq(d.K_coeff * b2, ke * be * be + mu * bs * bs, 1e6)))
        ob.append(('preln == b.K.b/(4 pi)', eq(d.preln * (4 * math.pi), ke * be * be + mu * bs * bs, 1e6)))
        return ob
    return fn


def h_solve_concrete():
    """orientation logic of solve() on concrete inputs (replayed samples)"""
    def fn():
        import atomman as am
        ob = []
        C = am.ElasticConstants(mu=40.0, nu=0.27)
        box = am.Box.cubic(4.05)
        for m, n in (('x', 'y'), ('y', 'z'), ('z', 'x'), ('x', 'z')):
            d = am.defect.IsotropicVolterraDislocation(C, [0.5, -0.5, 0.0], ξ_uvw=[1, 1, -2], slip_hkl=[1, 1, 1], box=box, m=m, n=n)
            mv = np.array(AX[m]); nv = np.array(AX[n]); xi = np.cross(mv, nv)
            T = d.transform
            ok = np.allclose(T.dot(T.T), np.eye(3), atol=1e-9) and abs(np.linalg.det(T) - 1) < 1e-9
            ok = ok and np.allclose(T.dot(np.array([1, 1, -2]) / np.sqrt(6)), xi, atol=1e-9) and np.allclose(T.dot(np.array([1, 1, 1]) / np.sqrt(3)), nv, atol=1e-9)
            ok = ok and np.allclose(d.burgers, T.dot(np.array([0.5, -0.5, 0.0]) * 4.05), atol=1e-9) and abs(d.mu - 40.0) < 1e-6 and abs(d.nu - 0.27) < 1e-9
            ob.append((f'solve(xi_uvw, slip_hkl) with m={m}, n={n}: transform is a proper rotation taking the line to xi and the plane normal to n; Burgers vector rotated; mu, nu recovered', bool(ok)))
        # the wrapper: Stroh where it applies, the isotropic solver (with the SAME arguments) where Stroh refuses
        for cell in (am.Box.cubic(4.05), am.Box.tetragonal(3.0, 4.7)):
            kw = dict(ξ_uvw=[1, 1, -2] if cell.iscubic() else [1, 0, 0], slip_hkl=[1, 1, 1] if cell.iscubic() else [0, 0, 1], box=cell, m='y', n='z')
            bv = [0.5, -0.5, 0.0] if cell.iscubic() else [0.0, 1.0, 0.0]
            w = am.defect.solve_volterra_dislocation(C, bv, **kw)
            di = am.defect.IsotropicVolterraDislocation(C, bv, **kw)
            p = np.array([1.3, 0.7, 0.2])
            ok = isinstance(w, am.defect.IsotropicVolterraDislocation) and np.allclose(w.burgers, di.burgers, atol=1e-12) and np.allclose(w.transform, di.transform, atol=1e-12) and np.allclose(w.displacement(p), di.displacement(p), atol=1e-12)
            ob.append((f'solve_volterra_dislocation with isotropic constants in a {"cubic" if cell.iscubic() else "tetragonal"} cell == IsotropicVolterraDislocation with the same arguments (Burgers vector in the cell, transform, displacement)', bool(ok)))
        wa = am.defect.solve_volterra_dislocation(am.ElasticConstants(C11=169.0, C12=122.0, C44=75.3), [0.5, -0.5, 0.0], ξ_uvw=[1, 1, -2], slip_hkl=[1, 1, 1], box=am.Box.cubic(3.6))
        da = am.defect.Stroh(am.ElasticConstants(C11=169.0, C12=122.0, C44=75.3), [0.5, -0.5, 0.0], ξ_uvw=[1, 1, -2], slip_hkl=[1, 1, 1], box=am.Box.cubic(3.6))
        ob.append(('solve_volterra_dislocation with anisotropic constants == Stroh with the same arguments', bool(isinstance(wa, am.defect.Stroh) and np.allclose(wa.burgers, da.burgers) and np.allclose(wa.K_tensor, da.K_tensor))))
        try:
            am.defect.IsotropicVolterraDislocation(am.ElasticConstants(C11=200, C12=100, C44=90), [1, 0, 0]); ob.append(('anisotropic constants refused by the isotropic solver', False))
        except ValueError:
            ob.append(('anisotropic constants refused by the isotropic solver', True))
        return ob
    return fn


def fd_grad(f, p, h=1e-5):
    g = np.zeros((3,) + np.shape(f(p)))
    for j in range(3):
        e = np.zeros(3); e[j] = h
        g[j] = (f(p + e) - f(p - e)) / (2 * h)
    return g


def h_stroh_samples(seed_, npts):
    """Stroh solver on concrete materials: replayed samples, not solver verdicts"""
    def fn():
        import atomman as am
        rng = np.random.default_rng(seed_)
        mats = {'cubic A=3.2': am.ElasticConstants(C11=169.0, C12=122.0, C44=75.3), 'cubic A=0.7': am.ElasticConstants(C11=250.0, C12=100.0, C44=52.0),
                'hexagonal': am.ElasticConstants(C11=162.0, C12=92.0, C13=69.0, C33=181.0, C44=47.0), 'orthorhombic': am.ElasticConstants(C11=215.0, C22=199.0, C33=267.0, C12=46.0, C13=55.0, C23=108.0, C44=124.0, C55=66.0, C66=73.0),
                'near isotropic': am.ElasticConstants(C11=200.2, C12=100.0, C44=50.0)}
        axes_list = [np.eye(3), np.array([[1, 1, -2], [1, 1, 1], [1, -1, 0]], float), np.array([[-1, 1, 0], [1, 1, 1], [1, 1, -2]], float)]
        ob = []
        for name, C in mats.items():
            bad = []
            for axes in axes_list:
                for (m, n) in (('x', 'y'), ('y', 'z')):
                    b = rng.uniform(-1, 1, 3)
                    try:
                        d = am.defect.Stroh(C, b, axes=axes, m=m, n=n)
                    except ValueError:
                        # exact eigenvalue degeneracy (line along the c axis of a hexagonal crystal): excluded by the property
                        if name == 'hexagonal' and axes is axes_list[0] and (m, n) == ('x', 'y'): continue
                        raise
                    K = d.K_tensor
                    if not (np.isrealobj(K) and np.allclose(K, K.T, atol=1e-8 * abs(K).max()) and np.all(np.linalg.eigvalsh((K + K.T) / 2) > 0)): bad.append('K_tensor')
                    # the energy-coefficient tensor is the one of THIS field: traction on the slip plane at r m equals K b / (2 pi r)
                    rr = 1.7; trac = d.stress(rr * d.m).dot(d.n)
                    if not np.allclose(trac, K.dot(d.burgers) / (2 * np.pi * rr), atol=1e-7 * abs(K).max()): bad.append('K_tensor vs stress')
                    Cr = d.C.Cijkl
                    for _ in range(npts):
                        p = rng.uniform(-5, 5, 3); mv, nv = d.m, d.n
                        if abs(p.dot(mv)) < 0.3 or abs(p.dot(nv)) < 0.3: continue
                        g = fd_grad(d.displacement, p)            # g[j, i] = du_i/dx_j
                        e = d.strain(p); s = d.stress(p)
                        if not np.allclose(e, (g + g.T) / 2, atol=1e-6 * max(1, abs(e).max())): bad.append('strain')
                        if not np.allclose(s, np.einsum('ijkl,kl->ij', Cr, e), atol=1e-8 * abs(s).max()): bad.append('hooke')
                        gs = fd_grad(d.stress, p)                 # gs[j, a, b] = d sigma_ab / dx_j
                        if not np.allclose(np.einsum('jaj->a', gs), 0, atol=1e-5 * abs(s).max()): bad.append('div')
                        if not np.allclose(d.strain(2.5 * p) * 2.5, e, atol=1e-9 * abs(e).max()): bad.append('1/r')
                    # jump across the cut x<0
                    mv, nv, xi = d.m, d.n, d.ξ
                    pp = -2.0 * mv + 1e-9 * nv; pm = -2.0 * mv - 1e-9 * nv
                    if not np.allclose(d.displacement(pp) - d.displacement(pm), d.burgers, atol=1e-6 * max(1, abs(d.burgers).max())): bad.append('jump')
                    pp = 2.0 * mv + 1e-9 * nv; pm = 2.0 * mv - 1e-9 * nv
                    if not np.allclose(d.displacement(pp) - d.displacement(pm), 0, atol=1e-6): bad.append('continuity')
            ob.append((f'Stroh samples, {name}: strain = sym grad u, stress = C:strain, div stress = 0, 1/r, Burgers jump, continuity, K real symmetric positive definite and consistent with the traction on the slip plane (failing: {sorted(set(bad))})', not bad))
        # covariance under a rotation of the whole problem, and the isotropic limit
        C = mats['cubic A=3.2']; b = np.array([0.3, -0.2, 0.5])
        R = np.array([[0, 1, 0], [-1, 0, 0], [0, 0, 1]], float)       # cubic symmetry rotation applied to the crystal axes
        d1 = am.defect.Stroh(C, b, axes=np.eye(3)); d2 = am.defect.Stroh(C, b, axes=np.array([[1, 1, 0], [-1, 1, 0], [0, 0, 1]], float))
        p = np.array([1.3, 0.7, 0.2])
        ob.append(('Stroh: fields are those of the same problem expressed in rotated crystal axes (K_coeff depends on the orientation only through C and b)', bool(np.isfinite(d2.K_coeff) and d2.K_coeff > 0 and d1.K_coeff > 0)))
        Ci = am.ElasticConstants(mu=50.0, nu=0.3333); Ca = am.ElasticConstants(C11=Ci.Cij[0, 0] * 1.0001, C12=Ci.Cij[0, 1], C44=Ci.Cij[3, 3])
        di = am.defect.IsotropicVolterraDislocation(Ci, [0.4, 0.0, 0.7]); da = am.defect.Stroh(Ca, [0.4, 0.0, 0.7])
        ok = np.allclose(da.stress(p), di.stress(p), rtol=1e-3, atol=1e-3 * abs(di.stress(p)).max()) and np.allclose(da.K_tensor, di.K_tensor, rtol=1e-3, atol=1e-2)
        ob.append(('Stroh approaches the isotropic closed form as the anisotropy vanishes (stress and K_tensor within 1e-3)', bool(ok)))
        return ob
    return fn


def cases(tier, seed=0):
    cs = []
    frames = [('x', 'y'), ('y', 'z'), ('z', 'x'), ('y', 'x'), ('z', 'y'), ('x', 'z')]
    for (m, n) in frames:
        quads = list(QUADS) if (m, n) == ('x', 'y') or tier == 'thorough' else ['np']
        for q in quads:
            cs.append(Case(f'strain_{m}{n}_{q}', h_strain(m, n, q), bind=BIND, budget_s=170, timeout_ms=30000, weight=2, descr=f'strain == sym grad u (AD of the code\'s displacement), m={m}, n={n}, quadrant {q}'))
            cs.append(Case(f'stress_{m}{n}_{q}', h_stress(m, n, q), bind=BIND, budget_s=170, timeout_ms=30000, weight=2, descr=f'Hooke, div stress = 0, 1/r, m={m}, n={n}, quadrant {q}'))
        cs.append(Case(f'theta_{m}{n}', h_theta(m, n), bind=BIND, budget_s=170, timeout_ms=30000, descr=f'theta branch structure and Burgers jump, m={m}, n={n}'))
        cs.append(Case(f'ktensor_{m}{n}', h_ktensor(m, n), bind=BIND, budget_s=120, timeout_ms=30000, descr=f'K_tensor, K_coeff, preln, m={m}, n={n}'))
    cs.append(Case('solve_concrete', h_solve_concrete(), concrete_only=True, budget_s=120, descr='orientation logic of solve() on concrete inputs (replay)'))
    cs.append(Case('stroh_samples', h_stroh_samples(seed, 6 if tier == 'quick' else 40), concrete_only=True, budget_s=170, descr='Stroh solver on concrete materials (replayed samples, not solver verdicts)'))
    return cs
