# vlib.run -- runs the harness cases of one property in parallel worker processes, replays
# every solver counterexample on the real code, writes evidence, prints VIOLATION /
# KNOWN-FINDING lines.  See /verif/DESIGN.md §8.
import os, sys, json, time, importlib, multiprocessing as mp, traceback, hashlib, argparse, shutil, tempfile, signal

VERIF = os.path.dirname(os.path.dirname(os.path.abspath(__file__)))
sys.path.insert(0, VERIF)
os.environ.setdefault('PYTHONDONTWRITEBYTECODE', '1')
sys.dont_write_bytecode = True
import warnings
warnings.filterwarnings('ignore')


class Case:
    """one harness instance: fn() returns [(obligation name, SB/bool)]"""
    def __init__(self, name, fn, bind=(), allowed_exc=(), timeout_ms=10000, maxcases=8, max_paths=400,
                 budget_s=120, linearize=True, descr='', setup=None, kernels=(), weight=1.0,
                 expect_paths=1, concrete_only=False, reload=()):
        self.name = name; self.fn = fn; self.bind = tuple(bind); self.allowed_exc = tuple(allowed_exc)
        self.timeout_ms = timeout_ms; self.maxcases = maxcases; self.max_paths = max_paths
        self.budget_s = budget_s; self.linearize = linearize; self.descr = descr; self.setup = setup
        self.kernels = tuple(kernels); self.weight = weight; self.expect_paths = expect_paths
        self.concrete_only = concrete_only
        self.reload = tuple(reload)       # modules re-executed before the concrete replays (module-level caches filled by the symbolic run)


def _jsonable(x):
    import numpy as np
    if isinstance(x, dict): return {str(k): _jsonable(v) for k, v in x.items()}
    if isinstance(x, (list, tuple)): return [_jsonable(v) for v in x]
    if isinstance(x, (np.integer,)): return int(x)
    if isinstance(x, (np.floating,)): return float(x)
    if isinstance(x, np.ndarray): return x.tolist()
    if isinstance(x, (str, int, float, bool)) or x is None: return x
    return repr(x)


def run_case(case, extdir):
    """executed in a forked worker: symbolic exploration, then concrete replays"""
    from symx import core as sx, kernels
    t0 = time.time()
    kernels.EXTDIR = extdir
    out = dict(case=case.name, descr=case.descr, paths=[], obligations=0, discharged=0, nontrivial=0,
               unknown=0, candidates=[], violations=[], nonrepro=[], aborted=[], refused=0,
               witness=None, witness_ok=None, remaining=0, stats={}, samples=[], harness_errors=[])
    if not case.concrete_only:
        sx.bind(*case.bind)
        kernels.activate('sym', case.kernels)
        if case.setup: case.setup('sym')
        results, stats, remaining = sx.explore(case.fn, max_paths=case.max_paths, timeout_ms=case.timeout_ms,
                                               linearize=case.linearize, maxcases=case.maxcases,
                                               allowed_exc=case.allowed_exc, budget_s=case.budget_s)
        out['stats'] = stats.asdict(); out['remaining'] = remaining
        witness = None
        for pr in results:
            if pr.status.startswith('abort'):
                out['aborted'].append(pr.status[:200])
            if pr.status.startswith('harness-exc'):
                out['harness_errors'].append(pr.status[:300])
            if pr.status.startswith('refused'):
                out['refused'] += 1
            for name, res, model in pr.obligations:
                out['obligations'] += 1
                if res in ('unsat', 'unsat-const'):
                    out['discharged'] += 1
                    if res == 'unsat': out['nontrivial'] += 1          # decided by a solver query (not folded to a constant)
                elif res in ('sat', 'sat-concrete'):
                    out['candidates'].append(dict(obligation=name, model=model, status=pr.status[:300]))
                else:
                    out['unknown'] += 1
            if pr.witness is not None and witness is None:
                witness = pr.witness
        out['npaths'] = len(results)
        out['path_status'] = {}
        for pr in results:
            k = pr.status.split(':')[0] if not pr.status.startswith('exc') else pr.status[:120]
            out['path_status'][k] = out['path_status'].get(k, 0) + 1
        sx.unbind(*case.bind)
        import importlib as _il
        nu_ = sys.modules.get('numericalunits')
        if nu_ is not None and hasattr(nu_, '_verif_real_reset'): nu_.reset_units = nu_._verif_real_reset      # stub installed by the unit harnesses
        for m_ in case.reload:
            if m_ in sys.modules: _il.reload(sys.modules[m_])
    else:
        witness = {}
        out['stats'] = sx.Stats().asdict(); out['npaths'] = 0; out['path_status'] = {}
    # ---- concrete side: real numpy, freshly built extensions
    kernels.activate('conc', case.kernels)
    if case.setup: case.setup('conc')
    out['witness'] = witness
    if witness is not None and all(v is not None for v in witness.values()):
        st, res = sx.run_concrete(case.fn, witness, case.allowed_exc)
        bad = [n for n, ok in res if not ok]
        out['witness_ok'] = (st == 'ok' and not bad) if not case.concrete_only else (st == 'ok' and not bad)
        out['witness_status'] = st
        if st.startswith('harness-exc'): out['harness_errors'].append('witness replay: ' + st[:300])
        if st.startswith('exc') or bad:
            # the real code violates an obligation (or raises) on a concrete input
            out['violations'].append(dict(obligation=(bad[0] if bad else 'no_unexpected_exception'), inputs=witness,
                                          observed=st if not bad else f'concrete obligations false: {bad[:6]}',
                                          found_by='witness-replay'))
        if case.concrete_only:
            out['obligations'] += len(res); out['discharged'] += len(res) - len(bad)
            out['concrete_only'] = True; out['concrete_obligations'] = len(res)
    seen = set()
    for cand in out['candidates']:
        key = cand['obligation']
        if key in seen: continue
        m = cand['model']
        if m is None or any(v is None for v in m.values()):
            out['nonrepro'].append(dict(obligation=key, reason='no usable model')); seen.add(key); continue
        st, res = sx.run_concrete(case.fn, m, case.allowed_exc)
        resd = dict(res)
        if key == 'no_unexpected_exception':
            confirmed = st.startswith('exc')
        else:
            # harnesses whose replay states the property differently (real parser on a synthesised witness) have other
            # obligation names: then any failing concrete obligation on the solver's input confirms the violation
            confirmed = (st == 'ok' and ((key in resd and not resd[key]) or (key not in resd and any(not ok_ for ok_ in resd.values())))) or st.startswith('exc')
        if confirmed:
            seen.add(key)
            out['violations'].append(dict(obligation=key, inputs=m, observed=st if st != 'ok' else 'obligation false on real code',
                                          found_by='solver-model'))
        else:
            out['nonrepro'].append(dict(obligation=key, inputs=m, reason=f'replay status {st}; obligation held on real code'))
    out['wall_s'] = round(time.time() - t0, 2)
    return out


def _worker(case, extdir, conn):
    try:
        signal.signal(signal.SIGTERM, signal.SIG_DFL)
        r = run_case(case, extdir)
    except BaseException as e:
        r = dict(case=case.name, error=f'{type(e).__name__}: {e}', tb=traceback.format_exc()[-2000:])
    try:
        conn.send(json.dumps(_jsonable(r)))
    finally:
        conn.close()


def run_cases(cases, extdir, nproc=16, hard_factor=2.0):
    ctx = mp.get_context('fork')
    pending = sorted(cases, key=lambda c: -c.weight)
    running = []; results = []
    while pending or running:
        while pending and len(running) < nproc:
            c = pending.pop(0)
            pc, cc = ctx.Pipe(duplex=False)
            p = ctx.Process(target=_worker, args=(c, extdir, cc)); p.start(); cc.close()
            running.append((c, p, pc, time.time()))
        time.sleep(0.05)
        for item in list(running):
            c, p, pc, ts = item
            if pc.poll():
                try:
                    results.append(json.loads(pc.recv()))
                except EOFError:
                    results.append(dict(case=c.name, error='worker died without result'))
                p.join(5); running.remove(item)
            elif not p.is_alive():
                results.append(dict(case=c.name, error=f'worker exited {p.exitcode} without result'))
                running.remove(item)
            elif time.time() - ts > c.budget_s * hard_factor + 60:
                p.kill(); p.join()
                results.append(dict(case=c.name, error='hard timeout', timeout=True))
                running.remove(item)
    return results


def load_known():
    p = os.path.join(VERIF, 'known_findings.json')
    if not os.path.exists(p): return dict(known=[], fixed=[])
    return json.load(open(p))


def match_known(known, pid, case, obligation):
    import fnmatch
    for k in known.get('known', []):
        if k['property'] == pid and (case == k['case'] or fnmatch.fnmatch(case, k['case'])) and (obligation == k['obligation'] or fnmatch.fnmatch(obligation, k['obligation'])):
            return k
    return None


def main(argv=None):
    ap = argparse.ArgumentParser()
    ap.add_argument('pid'); ap.add_argument('--tier', default=os.environ.get('VERIF_TIER', 'quick'))
    ap.add_argument('--replay'); ap.add_argument('--only'); ap.add_argument('--nproc', type=int, default=16)
    ap.add_argument('--no-evidence', action='store_true'); ap.add_argument('-v', action='store_true')
    a = ap.parse_args(argv)
    pid = a.pid.upper(); tier = a.tier if a.tier in ('quick', 'thorough') else 'quick'
    seed = int(os.environ.get('VERIF_SEED', '0') or 0)
    t0 = time.time()
    import atomman  # noqa: imported before forking so that workers share it (no z3 terms are created here)
    mod = importlib.import_module('props.' + pid.lower())
    from symx import kernels
    cases = mod.cases(tier, seed)
    if a.only:
        import fnmatch
        cases = [c for c in cases if fnmatch.fnmatch(c.name, a.only)]
    need = sorted({k for c in cases for k in c.kernels})
    extdir = None
    try:
        if need:
            extdir = kernels.build(need)
        if a.replay:
            return do_replay(pid, a.replay, cases, extdir)
        results = run_cases(cases, extdir, a.nproc)
    finally:
        if extdir: shutil.rmtree(extdir, ignore_errors=True)
    return report(pid, tier, seed, mod, cases, results, time.time() - t0, a)


def do_replay(pid, path, cases, extdir):
    from symx import core as sx, kernels
    rep = json.load(open(path))
    case = next((c for c in cases if c.name == rep['case']), None)
    if case is None:
        print(f'replay: case {rep["case"]} not in this tier; try --tier thorough'); return 2
    kernels.EXTDIR = extdir
    kernels.activate('conc', case.kernels)
    if case.setup: case.setup('conc')
    st, res = sx.run_concrete(case.fn, rep['inputs'], case.allowed_exc)
    print('status:', st)
    for n, ok in res:
        if not ok or n == rep['obligation']: print(f'  {n}: {"holds" if ok else "VIOLATED"}')
    bad = st.startswith('exc') or any(not ok for n, ok in res)
    print('replay reproduces the violation' if bad else 'replay does NOT reproduce')
    return 1 if bad else 0


def report(pid, tier, seed, mod, cases, results, wall, a):
    known = load_known()
    timeouts = [r for r in results if r.get('timeout')]
    errors = [r for r in results if 'error' in r and not r.get('timeout')]
    good = [r for r in results if 'error' not in r]
    obligations = sum(r['obligations'] for r in good); discharged = sum(r['discharged'] for r in good)
    unknown = sum(r['unknown'] for r in good)
    nviol = 0; lines = []
    repdir = os.path.join(VERIF, 'replays', pid); os.makedirs(repdir, exist_ok=True)
    viol_records = []; known_hits = []
    for r in good:
        seenv = set()
        for v in r['violations']:
            if v['obligation'] in seenv: continue
            seenv.add(v['obligation'])
            k = match_known(known, pid, r['case'], v['obligation'])
            h = hashlib.sha1(f"{r['case']}|{v['obligation']}".encode()).hexdigest()[:10]
            path = os.path.join(repdir, f'{h}.json')
            json.dump(dict(property=pid, case=r['case'], obligation=v['obligation'], inputs=v['inputs'],
                           observed=v['observed'], found_by=v['found_by'], tier=tier), open(path, 'w'), indent=1)
            if k:
                known_hits.append((k, r['case'], v))
                lines.append(f"KNOWN-FINDING: property={pid} {k['what']} [case={r['case']} obligation={v['obligation']}]")
            else:
                nviol += 1
                lines.append(f"VIOLATION property={pid} replay={path}")
                lines.append(f"  case={r['case']} obligation={v['obligation']} observed={v['observed']} inputs={json.dumps(v['inputs'])[:400]}")
            viol_records.append(dict(case=r['case'], obligation=v['obligation'], known=bool(k), replay=path))
    nonrepro = sum(len(r['nonrepro']) for r in good)
    aborted = sum(len(r['aborted']) for r in good)
    vacuous = [r['case'] for r in good if r.get('npaths', 0) and r['obligations'] == 0 and not r['violations'] and not r['refused']]
    nowit = [r['case'] for r in good if r.get('witness_ok') is None and r['obligations'] > 0]
    stats = {}
    for r in good:
        for k, v in r.get('stats', {}).items(): stats[k] = round(stats.get(k, 0) + v, 3)
    samples = []
    for r in good[:40]:
        if r.get('witness') is not None and len(samples) < 6:
            samples.append(dict(case=r['case'], descr=r['descr'], obligations=r['obligations'], discharged=r['discharged'],
                                reachability_witness=r['witness'], witness_replay_on_real_code=r.get('witness_status')))
    if not samples:
        samples = [dict(case=r['case'], descr=r.get('descr', '')) for r in results[:3]]
    meta = getattr(mod, 'META', {})
    ev = dict(
        property_id=pid, tier=tier, seed=seed, level='other', wall_s=round(wall, 2), violations=nviol,
        coverage=dict(
            explanation=meta.get('explanation', '') + ' Verdict per obligation: z3 unsat of (path condition AND assumptions AND NOT assertion) over all reals within the stated bounds; sat models are replayed on the real float64 code before being reported.',
            evaluations=max(1, obligations), distinct_nontrivial=sum(r.get('nontrivial', 0) for r in good),
            rule='one evaluation = one (case, path, assertion) obligation produced by executing the real code (symbolically, or concretely in the cases marked concrete_only); an obligation is counted as distinct and non-trivial when it was discharged by a z3 query (unsat) - obligations folded to True by term simplification, and the obligations of concrete_only cases, are not counted',
            obligations_solver_decided=sum(r.get('nontrivial', 0) for r in good),
            obligations_folded_to_constant=sum(r['discharged'] - r.get('nontrivial', 0) - (r.get('concrete_obligations', 0) if r.get('concrete_only') else 0) for r in good if not r.get('concrete_only')),
            concrete_only_cases=[r['case'] for r in good if r.get('concrete_only')],
            concrete_only_obligations=sum(r.get('concrete_obligations', 0) for r in good if r.get('concrete_only')),
            obligations=obligations, discharged=discharged, inconclusive_unknown=unknown, non_reproducing_models=nonrepro,
            aborted_paths=aborted, cases=len(cases), cases_timed_out=[t['case'] for t in timeouts], cases_failed_to_run=[dict(case=e['case'], error=e['error'][:300]) for e in errors],
            paths=sum(r.get('npaths', 0) for r in good), worklist_remaining=sum(r.get('remaining', 0) for r in good),
            refused_paths=sum(r.get('refused', 0) for r in good),
            solver=dict(stats, engine='z3 ' + _z3v(), backends='slicing -> monomial abstraction (LRA) -> nlsat'),
            checker_cmd=f'./check {pid} --tier {tier}',
            trusted_base=meta.get('trusted', []) + ['z3 solver', 'symx engine (/verif/symx)', 'NumPy object-array semantics'],
            functions_encoded=meta.get('functions', []), bounds=meta.get('bounds', {}).get(tier, meta.get('bounds', '')),
            outside_claim=meta.get('outside', []), lemmas=meta.get('lemmas', []), cuts=meta.get('cuts', []),
            vacuity=dict(cases_with_reachability_witness=sum(1 for r in good if r.get('witness') is not None),
                         witness_replays_ok=sum(1 for r in good if r.get('witness_ok')), cases_without_witness=nowit[:20]),
            per_case=[dict(case=r['case'], descr=r.get('descr', '')[:200], concrete_only=bool(r.get('concrete_only')), paths=r.get('npaths'), obligations=r['obligations'], discharged=r['discharged'], solver_decided=r.get('nontrivial', 0),
                           unknown=r['unknown'], remaining=r['remaining'], wall_s=r.get('wall_s'),
                           path_status=r.get('path_status'), aborted=r['aborted'][:3]) for r in good],
            violations=viol_records, known_findings_hit=[k['what'] for k, _, _ in known_hits],
            samples=samples, exhaustive=False),
        assumptions=meta.get('assumptions', []))
    if not a.no_evidence:
        os.makedirs(os.path.join(VERIF, 'evidence'), exist_ok=True)
        json.dump(_jsonable(ev), open(os.path.join(VERIF, 'evidence', f'{pid}.json'), 'w'), indent=1)
    for l in lines: print(l)
    print(f'{pid} tier={tier}: cases={len(cases)} paths={ev["coverage"]["paths"]} obligations={obligations} discharged={discharged} '
          f'unknown={unknown} nonrepro={nonrepro} aborted_paths={aborted} violations={nviol} known={len(known_hits)} '
          f'errors={len(errors)} wall={wall:.1f}s solver={stats.get("solver_s", 0)}s')
    if a.v or errors:
        for r in good:
            print('  ', r['case'], r.get('npaths'), r['obligations'], r['discharged'], r['unknown'], r.get('path_status'), r.get('wall_s'), r['aborted'][:2], [(n['obligation'][:60], n['reason'][:80]) for n in r['nonrepro'][:2]])
        for e in errors: print('  ERROR', e['case'], e['error'], e.get('tb', '')[-1500:])
    herr = [(r['case'], r['harness_errors'][0]) for r in good if r.get('harness_errors')]
    if nviol: return 1
    if herr:
        print(f'HARNESS-ERROR property={pid} harness exceptions: {herr[:5]}')
        return 3
    if errors or vacuous:
        print(f'HARNESS-ERROR property={pid} errors={[e["case"] for e in errors]} vacuous={vacuous}')
        return 3
    return 0


def _z3v():
    import z3
    return z3.get_version_string()


if __name__ == '__main__':
    sys.exit(main())
