# symx.core -- a small symbolic executor for NumPy-style Python over z3.
#
# The repository's own functions are executed, unmodified, on symbolic scalars (SV / SB)
# carried in NumPy object arrays (SA).  Branches on symbolic conditions fork (re-execution
# with a decision prefix); obligations are discharged as z3 queries.  See /verif/DESIGN.md §2.
import z3, math, time, types, sys, contextlib, itertools, os
TRACE = bool(os.environ.get('SYMX_TRACE'))
RLIMIT_PER_MS = 4000
RESOLVE_TIMEOUT_MS = 2000   # mask-element resolution is an optimisation: unresolved elements stay as ite terms
from fractions import Fraction
import numpy as _np


# ---------------------------------------------------------------- exceptions / context
class Abort(BaseException):
    """path cannot be analysed (C boundary, cap, infeasible prefix).  BaseException so that
    atomman's bare `except Exception` clauses do not swallow it; a flag is kept as well."""


class Stats:
    def __init__(self):
        self.queries = 0; self.q_lin = 0; self.q_nl = 0; self.solver_s = 0.0
        self.unknown = 0; self.paths = 0; self.aborted = 0; self.q_stageA = 0; self.q_stage0 = 0; self.q_interval = 0
    def add(self, o):
        for k in self.__dict__:
            setattr(self, k, getattr(self, k) + getattr(o, k))
    def asdict(self):
        d = dict(self.__dict__); d['solver_s'] = round(d['solver_s'], 3); return d


class Ctx:
    cur = None
    def __init__(self, timeout_ms=10000, linearize=True, maxcases=8):
        self.timeout_ms = timeout_ms
        self.linearize = linearize
        self.maxcases = maxcases
        self.pc = []            # path-condition terms of current run
        self.assumed = []       # assumptions (subset of pc, kept for reporting)
        self.prefix = []        # decisions to replay
        self.pos = 0
        self.trace = []         # decisions taken in this run
        self.worklist = []
        self.nfresh = 0
        self.axioms = []        # side constraints (sqrt defs etc.)
        self.stats = Stats()
        self.guards = []        # predication stack
        self.aborted = None     # set when an Abort was raised (even if swallowed)
        self.approx = False     # an `unknown` was treated as feasible on this path
        self.inputs = {}        # name -> z3 const (declared symbolic inputs)
        self.opaque = {}
        self.opaque_args = {}   # opaque var name -> (fn, argument SV)
        self.ranges = {}        # var name -> (lo, hi) known interval (None = unbounded)
        self.decided = {}
        self.iv_memo = {}
        self.numpy_division = True   # x/0 is inf (numpy scalar semantics) rather than ZeroDivisionError
        self.notes = []
        self.model = None
        self.concrete = None    # dict name->float in concrete replay mode

    # ---- variables
    def fresh(self, base, sort='R'):
        self.nfresh += 1
        n = f'{base}!{self.nfresh}'
        return z3.Real(n) if sort == 'R' else z3.Int(n)

    # ---- solver
    def check(self, *extra, want_model=False, timeout_ms=None, focus=None, noslice=False):
        t = time.time()
        st = self.stats
        st.queries += 1
        extra = [e for e in extra]
        if noslice:
            cons = list(self.pc) + list(self.axioms)
        else:
            cons = slice_constraints(list(self.pc) + list(self.axioms), extra + list(focus or []))
        allc = list(cons) + extra
        self.model_vars = None if noslice else set().union(*[free_vars(x) for x in allc]) if allc else set()
        tmo = timeout_ms or self.timeout_ms
        r = z3.unknown
        self.model = None
        if not noslice and not want_model and extra:
            # stage 0 (sound for unsat): only constraints over the query's own variables
            qv = set().union(*[free_vars(x) for x in extra])
            sub = [c_ for c_ in cons if free_vars(c_) <= qv]
            if len(sub) < len(cons):
                s0 = z3.Solver(); s0.set('timeout', min(tmo, 1500)); s0.add(*(sub + extra))
                if timed_check(s0, min(tmo, 1500)) == z3.unsat:
                    st.q_stage0 += 1; st.solver_s += time.time() - t
                    return z3.unsat
            # stage A (sound for unsat: fewer constraints): only the *linear* path constraints, re-sliced
            lin = [c_ for c_ in cons if is_linear(c_)]
            if len(lin) < len(cons):
                lin = slice_constraints(lin, extra + list(focus or []))
                st.q_stageA += 1
                r0 = z3.unknown
                if self.linearize:
                    try: r0 = check_linearized(lin + extra, min(tmo, 3000))
                    except z3.Z3Exception: r0 = z3.unknown
                if r0 != z3.unsat:
                    s0 = z3.Solver(); s0.set('timeout', min(tmo, 3000)); s0.add(*(lin + extra))
                    r0 = timed_check(s0, min(tmo, 3000))
                if r0 == z3.unsat:
                    st.solver_s += time.time() - t
                    return z3.unsat
        if self.linearize and not want_model:
            st.q_lin += 1
            try:
                r = check_linearized(allc, tmo)
            except z3.Z3Exception:
                r = z3.unknown
            if r != z3.unsat:
                r = z3.unknown
        if r == z3.unknown:
            st.q_nl += 1
            s = z3.Solver(); s.set('timeout', tmo)
            s.add(*allc)
            r = timed_check(s, tmo)
            if r == z3.sat:
                self.model = s.model()
        st.solver_s += time.time() - t
        if r == z3.unknown:
            st.unknown += 1
        if TRACE and (time.time() - t > 1.0 or r == z3.unknown):
            import traceback
            fr = [f for f in traceback.extract_stack()[:-1] if 'symx/core.py' not in f.filename]
            print(f'[symx] {r} {time.time() - t:.1f}s cons={len(allc)} at ' + ' <- '.join(f'{os.path.basename(f.filename)}:{f.lineno}' for f in fr[-3:][::-1]),
                  '| query:', str(extra[0])[:200].replace(chr(10), ' ') if extra else '-', flush=True)
        return r

    def _record(self, entry, term, orig=None):
        self.pos += 1
        self.trace.append(entry)
        self.pc.append(term)
        if orig is not None and isinstance(entry, bool):
            self.decided[orig.get_id()] = (orig, entry)

    def decide(self, term):
        term = z3.simplify(term)
        if z3.is_true(term): return True
        if z3.is_false(term): return False
        hit = self.decided.get(term.get_id())
        if hit is not None and hit[0].eq(term):
            return hit[1]           # already on the path condition (no new trace entry needed: deterministic replay)
        if self.pos < len(self.prefix):
            d = self.prefix[self.pos]
            if not isinstance(d, bool):
                raise Abort('prefix desync (bool expected)')
            self._record(d, term if d else z3.Not(term), term)
            return d
        it = interval_truth(term, self.ranges)
        if it is not None:
            self.stats.q_interval += 1
            rt, rf = (z3.sat, z3.unsat) if it else (z3.unsat, z3.sat)
        else:
            rt = self.check(term)
            rf = self.check(z3.Not(term)) if rt != z3.unsat else z3.sat
        if rt == z3.unknown or rf == z3.unknown:
            self.approx = True
        can_t = rt != z3.unsat
        can_f = rf != z3.unsat
        if can_t and can_f:
            self.worklist.append(self.trace + [False])
            d = True
        elif can_t:
            d = True
        elif can_f:
            d = False
        else:
            self.aborted = 'infeasible path'
            raise Abort('infeasible path')
        self._record(d, term if d else z3.Not(term), term)
        return d

    def concretize(self, sv, cap=64, what='value'):
        """enumerate the feasible integer values of sv, forking once per value"""
        n = 0
        while True:
            n += 1
            if n > cap:
                self.aborted = f'concretisation cap {cap} hit for {what}'
                raise Abort(self.aborted)
            if self.pos < len(self.prefix):
                e = self.prefix[self.pos]
                if not (isinstance(e, tuple) and e[0] == 'v'):
                    raise Abort('prefix desync (value expected)')
                _, val, taken = e
            else:
                r = self.check(want_model=True, focus=[sv.t])
                if r != z3.sat:
                    self.aborted = f'concretize: {r}'
                    raise Abort(self.aborted)
                mv = self.model.eval(sv.t, model_completion=True)
                val = _num(mv)
                if val != int(val):
                    # non-integer value where an index is needed: treat as the code would (TypeError)
                    raise Abort('non-integer value at index site')
                val = int(val)
                # is another value possible?
                r2 = self.check(sv.t != val)
                if r2 == z3.unknown: self.approx = True
                if r2 != z3.unsat:
                    self.worklist.append(self.trace + [('v', val, False)])
                taken = True
            if taken:
                self._record(('v', val, True), sv.t == val)
                return val
            self._record(('v', val, False), sv.t != val)


def ctx():
    return Ctx.cur


def symbolic_mode():
    c = Ctx.cur
    return c is not None and c.concrete is None


def _num(mv):
    if z3.is_int_value(mv): return mv.as_long()
    if z3.is_rational_value(mv): return mv.numerator_as_long() / mv.denominator_as_long()
    if z3.is_algebraic_value(mv): return float(mv.approx(20).as_fraction())
    try:
        return float(mv.as_fraction())
    except Exception:
        raise Abort(f'cannot evaluate model value {mv}')


# ---------------------------------------------------------------- solver call with a watchdog
import threading
def timed_check(s, tmo_ms):
    """z3 does not always honour its own timeout inside preprocessing/nlsat; interrupt from a timer"""
    s.set('rlimit', int(tmo_ms) * RLIMIT_PER_MS)      # nlsat honours the resource limit, not always the timeout
    try:
        return s.check()
    except z3.Z3Exception:
        return z3.unknown


# ---------------------------------------------------------------- slicing
_fv_cache = {}
def free_vars(t):
    k = t.get_id()
    hit = _fv_cache.get(k)
    if hit is not None and hit[0].eq(t): return hit[1]
    out = set(); seen = set(); stack = [t]
    while stack:
        e = stack.pop()
        i = e.get_id()
        if i in seen: continue
        seen.add(i)
        if z3.is_const(e):
            if e.decl().kind() == z3.Z3_OP_UNINTERPRETED:
                out.add(e.decl().name())
        else:
            stack.extend(e.children())
    if len(_fv_cache) > 200000: _fv_cache.clear()
    _fv_cache[k] = (t, out)      # holding t keeps the id from being reused
    return out


_lin_cache = {}
def is_linear(t):
    k = t.get_id()
    hit = _lin_cache.get(k)
    if hit is not None and hit[0].eq(t): return hit[1]
    ok = True; seen = set(); stack = [t]
    while stack and ok:
        e = stack.pop()
        i = e.get_id()
        if i in seen: continue
        seen.add(i)
        if z3.is_app(e):
            kind = e.decl().kind(); ch = e.children()
            if kind == z3.Z3_OP_MUL:
                if sum(1 for c in ch if not (z3.is_rational_value(c) or z3.is_int_value(c))) > 1: ok = False
            elif kind in (z3.Z3_OP_DIV, z3.Z3_OP_IDIV, z3.Z3_OP_MOD, z3.Z3_OP_POWER):
                if not (z3.is_rational_value(ch[1]) or z3.is_int_value(ch[1])) or kind == z3.Z3_OP_POWER: ok = False
            stack.extend(ch)
    if len(_lin_cache) > 200000: _lin_cache.clear()
    _lin_cache[k] = (t, ok)
    return ok


def slice_constraints(cons, query):
    """keep only constraints transitively sharing variables with the query"""
    need = set()
    for q in query: need |= free_vars(q)
    fvs = [free_vars(c) for c in cons]
    keep = [False] * len(cons)
    changed = True
    while changed:
        changed = False
        for i, fv in enumerate(fvs):
            if not keep[i] and (fv & need or not fv):
                keep[i] = True
                if not fv <= need:
                    need |= fv; changed = True
    return [c for c, k in zip(cons, keep) if k]


# ---------------------------------------------------------------- interval bounds
def _fr(v):
    if z3.is_int_value(v): return Fraction(v.as_long())
    return Fraction(v.numerator_as_long(), v.denominator_as_long())


def interval(t, ranges, _memo=None):
    """sound enclosure (lo, hi) of a term from the declared ranges of its variables; None = unbounded"""
    if _memo is None:
        c = Ctx.cur
        _memo = c.iv_memo if (c is not None and ranges is c.ranges) else {}
    k = t.get_id()
    if k in _memo and _memo[k][0].eq(t): return _memo[k][1]
    tr = ranges.get('#terms')
    if tr:
        hit = tr.get(k)
        if hit is not None and hit[0].eq(t):
            _memo[k] = (t, hit[1]); return hit[1]
    r = _interval(t, ranges, _memo)
    _memo[k] = (t, r)
    return r


def _imul(a, b):
    if None in a or None in b:
        return (None, None)
    ps = [a[0] * b[0], a[0] * b[1], a[1] * b[0], a[1] * b[1]]
    return (min(ps), max(ps))


_INF = float('inf')
def _imul2(a, b):
    """product of enclosures with possibly missing (None = infinite) bounds"""
    A = (-_INF if a[0] is None else a[0], _INF if a[1] is None else a[1])
    B = (-_INF if b[0] is None else b[0], _INF if b[1] is None else b[1])
    ps = []
    for x in A:
        for y in B:
            if x == 0 or y == 0: ps.append(Fraction(0))
            elif x in (_INF, -_INF) or y in (_INF, -_INF):
                ps.append(_INF if (x > 0) == (y > 0) else -_INF)
            else: ps.append(x * y)
    lo, hi = min(ps), max(ps)
    return (None if lo == -_INF else lo, None if hi == _INF else hi)


def interval_truth(t, ranges, memo=None):
    """True / False if the enclosure analysis decides the boolean term, else None"""
    if memo is None: memo = {}
    if z3.is_true(t): return True
    if z3.is_false(t): return False
    if not z3.is_app(t): return None
    key = ('b', t.get_id())
    if key in memo: return memo[key][1]
    r = _interval_truth(t, ranges, memo)
    memo[key] = (t, r)
    return r


def _interval_truth(t, ranges, memo):
    kind = t.decl().kind(); ch = t.children()
    if kind == z3.Z3_OP_NOT:
        r = interval_truth(ch[0], ranges, memo); return None if r is None else not r
    if kind == z3.Z3_OP_AND:
        rs = [interval_truth(c, ranges, memo) for c in ch]
        if any(r is False for r in rs): return False
        return True if all(r is True for r in rs) else None
    if kind == z3.Z3_OP_OR:
        rs = [interval_truth(c, ranges, memo) for c in ch]
        if any(r is True for r in rs): return True
        return False if all(r is False for r in rs) else None
    if kind in (z3.Z3_OP_LE, z3.Z3_OP_LT, z3.Z3_OP_GE, z3.Z3_OP_GT) and len(ch) == 2:
        a = interval(ch[0], ranges, memo); b = interval(ch[1], ranges, memo)
        if kind in (z3.Z3_OP_GE, z3.Z3_OP_GT): a, b = b, a; kind = z3.Z3_OP_LE if kind == z3.Z3_OP_GE else z3.Z3_OP_LT
        # now a (<= | <) b
        if a[1] is not None and b[0] is not None and (a[1] < b[0] or (kind == z3.Z3_OP_LE and a[1] <= b[0])): return True
        if a[0] is not None and b[1] is not None and (a[0] > b[1] or (kind == z3.Z3_OP_LT and a[0] >= b[1])): return False
        return None
    return None


def _refine(cond, ranges):
    """ranges refined by a condition `v >= k` / `v <= k` (v a variable) for the then / else branch"""
    if not z3.is_app(cond) or cond.num_args() != 2: return ranges, ranges
    kind = cond.decl().kind(); v, k = cond.arg(0), cond.arg(1)
    if kind not in (z3.Z3_OP_GE, z3.Z3_OP_LE, z3.Z3_OP_GT, z3.Z3_OP_LT): return ranges, ranges
    if not (z3.is_const(v) and v.decl().kind() == z3.Z3_OP_UNINTERPRETED and (z3.is_rational_value(k) or z3.is_int_value(k))): return ranges, ranges
    n = v.decl().name(); kv = _fr(k); lo, hi = ranges.get(n, (None, None))
    up = (lo, kv if hi is None else min(hi, kv)); dn = (kv if lo is None else max(lo, kv), hi)
    ra = dict(ranges); rb = dict(ranges)
    if kind in (z3.Z3_OP_GE, z3.Z3_OP_GT): ra[n] = dn; rb[n] = up
    else: ra[n] = up; rb[n] = dn
    return ra, rb


def _interval(t, ranges, memo):
    if z3.is_rational_value(t) or z3.is_int_value(t):
        v = _fr(t); return (v, v)
    if not z3.is_app(t): return (None, None)
    kind = t.decl().kind(); ch = t.children()
    if kind == z3.Z3_OP_UNINTERPRETED and not ch:
        return ranges.get(t.decl().name(), (None, None))
    iv = [interval(c, ranges, memo) for c in ch] if kind != z3.Z3_OP_ITE else None
    if kind == z3.Z3_OP_ADD:
        lo = None if any(i[0] is None for i in iv) else sum(i[0] for i in iv)
        hi = None if any(i[1] is None for i in iv) else sum(i[1] for i in iv)
        return (lo, hi)
    if kind == z3.Z3_OP_SUB:
        lo, hi = iv[0]
        for i in iv[1:]:
            lo = None if lo is None or i[1] is None else lo - i[1]
            hi = None if hi is None or i[0] is None else hi - i[0]
        return (lo, hi)
    if kind == z3.Z3_OP_UMINUS:
        lo, hi = iv[0]
        return (None if hi is None else -hi, None if lo is None else -lo)
    if kind == z3.Z3_OP_MUL:
        # pair identical factors: x*x >= 0
        rest = list(zip(ch, iv)); r = (Fraction(1), Fraction(1))
        while rest:
            c0, i0 = rest.pop(0)
            j = next((k for k, (c1, _) in enumerate(rest) if c1.eq(c0)), None)
            if j is not None:
                rest.pop(j)
                sq = _imul(i0, i0)
                if sq[0] is not None:
                    lo = Fraction(0) if i0[0] <= 0 <= i0[1] else min(i0[0] * i0[0], i0[1] * i0[1])
                    sq = (lo, max(i0[0] * i0[0], i0[1] * i0[1]))
                else:
                    sq = (Fraction(0), None)
                r = _imul2(r, sq)
            else:
                r = _imul2(r, i0)
        return r
    if kind == z3.Z3_OP_DIV:
        d = iv[1]
        if None in d or d[0] <= 0 <= d[1]: return (None, None)
        return _imul2(iv[0], (1 / d[1], 1 / d[0]))
    if kind == z3.Z3_OP_POWER and z3.is_int_value(ch[1]) and ch[1].as_long() >= 0:
        r = (Fraction(1), Fraction(1))
        for _ in range(ch[1].as_long()): r = _imul(r, iv[0])
        if ch[1].as_long() % 2 == 0 and r[0] is not None and r[0] < 0: r = (Fraction(0), r[1])
        return r
    if kind == z3.Z3_OP_ITE:
        ra, rb = _refine(ch[0], ranges)
        a = interval(ch[1], ra, {} if ra is not ranges else memo); b = interval(ch[2], rb, {} if rb is not ranges else memo)
        lo = None if a[0] is None or b[0] is None else min(a[0], b[0])
        hi = None if a[1] is None or b[1] is None else max(a[1], b[1])
        a = interval(ch[1], ranges, memo)
        # |x| pattern: If(x >= 0, x, -x)
        if ch[0].decl().kind() == z3.Z3_OP_GE and ch[0].arg(0).eq(ch[1]) and (z3.is_rational_value(ch[0].arg(1)) or z3.is_int_value(ch[0].arg(1))) and _fr(ch[0].arg(1)) == 0:
            x0, x1 = a
            if x0 is not None and x1 is not None:
                lo = Fraction(0) if x0 <= 0 <= x1 else min(abs(x0), abs(x1))
                hi = max(abs(x0), abs(x1))
            else:
                lo = Fraction(0) if (lo is None or lo < 0) else lo
        return (lo, hi)
    if kind == z3.Z3_OP_TO_REAL:
        return iv[0]
    return (None, None)


def _set_range(c, z, lo, hi):
    c.ranges[z.decl().name()] = (lo, hi)
    if lo is not None: c.axioms.append(z >= z3.RealVal(str(lo)) if z.sort() != z3.IntSort() else z >= math.floor(lo))
    if hi is not None: c.axioms.append(z <= z3.RealVal(str(hi)) if z.sort() != z3.IntSort() else z <= math.ceil(hi))


def _fsqrt(x, up):
    """rational outward-rounded square root"""
    if x <= 0: return Fraction(0)
    f = Fraction(math.sqrt(float(x)))
    return f * (Fraction(1000001, 1000000) if up else Fraction(999999, 1000000))


# ---------------------------------------------------------------- division elimination
class DivElim:
    """rewrite a formula so that no division by a non-constant remains: every arithmetic term
    becomes a pair (N, D); atoms are cross-multiplied (by D^2 products for inequalities).  Valid
    where all denominators are non-zero, which the engine guarantees on every path (each
    division site first decides `denominator == 0`; that side raises ZeroDivisionError)."""
    def __init__(self):
        self.cache = {}
        self.dens = {}
    def frac(self, e):
        k = e.get_id()
        hit = self.cache.get(k)
        if hit is not None: return hit[1]
        r = self._frac(e)
        self.cache[k] = (e, r)
        return r
    def _frac(self, e):
        one = None
        if not z3.is_app(e): return (e, one)
        kind = e.decl().kind(); ch = e.children()
        if kind == z3.Z3_OP_DIV:
            (n1, d1), (n2, d2) = self.frac(ch[0]), self.frac(ch[1])
            if z3.is_rational_value(ch[1]) or z3.is_int_value(ch[1]):
                return (n1 / ch[1], d1)
            # (n1/d1)/(n2/d2) = n1 d2 / (d1 n2)
            num = n1 if d2 is None else n1 * d2
            den = n2 if d1 is None else d1 * n2
            self.dens[n2.get_id()] = n2
            return (num, den)
        if kind == z3.Z3_OP_ADD or kind == z3.Z3_OP_SUB:
            fr = [self.frac(c) for c in ch]
            if all(d is None for _, d in fr):
                return (e, None) if all(n.eq(c) for (n, _), c in zip(fr, ch)) else (e.decl()(*[n for n, _ in fr]), None)
            # common denominator: group structurally equal denominators
            dens = []
            for _, d in fr:
                if d is not None and not any(d.eq(x) for x in dens): dens.append(d)
            if len(dens) == 1:
                D = dens[0]
                nums = [n if d is not None else n * D for n, d in fr]
                return (e.decl()(*nums), D)
            D = dens[0]
            for x in dens[1:]: D = D * x
            nums = []
            for n, d in fr:
                m = n
                for x in dens:
                    if d is None or not d.eq(x): m = m * x
                nums.append(m)
            return (e.decl()(*nums), D)
        if kind == z3.Z3_OP_UMINUS:
            n, d = self.frac(ch[0]); return (-n, d)
        if kind == z3.Z3_OP_MUL:
            fr = [self.frac(c) for c in ch]
            N = fr[0][0]; D = fr[0][1]
            for n, d in fr[1:]:
                N = N * n
                if d is not None: D = d if D is None else D * d
            return (N, D)
        if kind == z3.Z3_OP_POWER and z3.is_int_value(ch[1]) and ch[1].as_long() >= 0:
            n, d = self.frac(ch[0]); p = ch[1].as_long()
            if d is None: return (e, None)
            return (z3.Product(*[n] * p) if p else z3.RealVal(1), z3.Product(*[d] * p) if p else None)
        if kind == z3.Z3_OP_ITE:
            c = self.form(ch[0]); (n1, d1), (n2, d2) = self.frac(ch[1]), self.frac(ch[2])
            if d1 is None and d2 is None: return (z3.If(c, n1, n2), None)
            if d1 is not None and d2 is not None and d1.eq(d2): return (z3.If(c, n1, n2), d1)
            a = n1 if d2 is None else n1 * d2
            b = n2 if d1 is None else n2 * d1
            D = d1 if d2 is None else (d2 if d1 is None else d1 * d2)
            return (z3.If(c, a, b), D)
        if kind == z3.Z3_OP_TO_REAL:
            return (e, None)
        if not ch: return (e, None)
        return (e, None)     # other operators (to_int, uninterpreted): left as they are
    def form(self, e):
        k = ('f', e.get_id())
        hit = self.cache.get(k)
        if hit is not None: return hit[1]
        r = self._form(e)
        self.cache[k] = (e, r)
        return r
    def _form(self, e):
        if not z3.is_app(e): return e
        kind = e.decl().kind(); ch = e.children()
        if kind in (z3.Z3_OP_AND, z3.Z3_OP_OR, z3.Z3_OP_NOT, z3.Z3_OP_IMPLIES, z3.Z3_OP_XOR) or \
           (kind in (z3.Z3_OP_EQ, z3.Z3_OP_ITE, z3.Z3_OP_DISTINCT) and ch and z3.is_bool(ch[0]) and all(z3.is_bool(c) for c in ch[-2:])):
            return e.decl()(*[self.form(c) for c in ch])
        if kind in (z3.Z3_OP_EQ, z3.Z3_OP_DISTINCT, z3.Z3_OP_LE, z3.Z3_OP_LT, z3.Z3_OP_GE, z3.Z3_OP_GT) and len(ch) == 2 and z3.is_arith(ch[0]):
            (n1, d1), (n2, d2) = self.frac(ch[0]), self.frac(ch[1])
            if d1 is None and d2 is None:
                return e if (n1.eq(ch[0]) and n2.eq(ch[1])) else e.decl()(n1, n2)
            if kind in (z3.Z3_OP_EQ, z3.Z3_OP_DISTINCT):
                if d1 is not None and d2 is not None and d1.eq(d2): return e.decl()(n1, n2)
                a = n1 if d2 is None else n1 * d2
                b = n2 if d1 is None else n2 * d1
                return e.decl()(a, b)
            # inequality: multiply both sides by d1^2 d2^2 > 0
            a = n1; b = n2
            if d1 is not None: a = a * d1; b = b * d1 * d1
            if d2 is not None: a = a * d2 * d2; b = b * d2
            return e.decl()(a, b)
        return e


def elim_div(cons):
    de = DivElim()
    out = [de.form(c) for c in cons]
    return out + [d != 0 for d in de.dens.values()]


def has_div(t):
    seen = set(); stack = [t]
    while stack:
        e = stack.pop(); i = e.get_id()
        if i in seen: continue
        seen.add(i)
        if z3.is_app(e):
            if e.decl().kind() == z3.Z3_OP_DIV and not (z3.is_rational_value(e.arg(1)) or z3.is_int_value(e.arg(1))): return True
            stack.extend(e.children())
    return False


# ---------------------------------------------------------------- monomial abstraction
def _som(t):
    return z3.simplify(t, som=True, mul_to_power=False, arith_lhs=True, hoist_mul=False, flat=True, sort_sums=True)


class Linearizer:
    """Replace every nonlinear monomial by a fresh real (over-approximation: unsat stays unsat)."""
    def __init__(self):
        self.mono = {}
        self.cache = {}
    def lin(self, e):
        k = e.get_id()
        hit = self.cache.get(k)
        if hit is not None: return hit[1]
        r = self._lin(e)
        self.cache[k] = (e, r)
        return r
    def _isnum(self, c):
        return z3.is_rational_value(c) or z3.is_int_value(c)
    def _lin(self, e):
        if z3.is_app(e):
            kind = e.decl().kind()
            ch = e.children()
            if kind == z3.Z3_OP_MUL:
                consts = [c for c in ch if self._isnum(c)]
                rest = [self.lin(c) for c in ch if not self._isnum(c)]
                if len(rest) <= 1:
                    out = rest[0] if rest else z3.RealVal(1)
                else:
                    key = tuple(sorted(r.get_id() for r in rest))
                    if key not in self.mono:
                        srt = z3.Int if all(r.sort() == z3.IntSort() for r in rest) else z3.Real
                        self.mono[key] = (rest, srt(f'mono!{len(self.mono)}'))
                    out = self.mono[key][1]
                for c in consts: out = c * out
                return out
            if kind == z3.Z3_OP_POWER and len(ch) == 2 and z3.is_int_value(ch[1]) and ch[1].as_long() >= 2:
                return self.lin(z3.Product(*[ch[0]] * ch[1].as_long()))
            if kind in (z3.Z3_OP_DIV, z3.Z3_OP_IDIV, z3.Z3_OP_MOD) and not self._isnum(ch[1]):
                key = ('div', kind, ch[0].get_id(), ch[1].get_id())
                if key not in self.mono:
                    self.mono[key] = (ch, z3.Real(f'mono!{len(self.mono)}'))
                return self.mono[key][1]
            if not ch: return e
            return e.decl()(*[self.lin(c) for c in ch])
        return e


_GL = {'lin': None, 'cache': {}}
def _linform(c):
    """per-constraint cache of (division-eliminated, som-normalised, monomial-abstracted) forms; the
    monomial table is process-wide so that equal monomials get the same fresh name in every query"""
    k = c.get_id()
    hit = _GL['cache'].get(k)
    if hit is not None and hit[0].eq(c): return hit[1]
    if _GL['lin'] is None: _GL['lin'] = Linearizer()
    L = _GL['lin']
    if has_div(c):
        de = DivElim()
        f = de.form(c)
        parts = [f] + [d != 0 for d in de.dens.values()]
    else:
        parts = [c]
    out = [L.lin(_som(p)) for p in parts]
    if len(_GL['cache']) > 100000: _GL['cache'].clear()
    _GL['cache'][k] = (c, out)
    return out


def check_linearized(cons, timeout_ms=60000):
    s = z3.Solver()
    s.set('timeout', timeout_ms)
    for c in cons:
        for f in _linform(c): s.add(f)
    return timed_check(s, timeout_ms)


# ---------------------------------------------------------------- scalar values
def _const(x):
    if isinstance(x, (bool, _np.bool_)):
        return z3.IntVal(int(x))
    if isinstance(x, (int, _np.integer)):
        return z3.IntVal(int(x))
    if isinstance(x, (float, _np.floating)):
        x = float(x)
        if x != x or x in (float('inf'), float('-inf')):
            raise Abort('nan/inf constant reached the solver')
        if x == math.pi: pass
        return z3.RealVal(str(Fraction(repr(x))))
    if isinstance(x, Fraction):
        return z3.RealVal(str(x))
    raise TypeError(f'cannot make a term of {type(x).__name__}')


def term(x):
    if isinstance(x, SV): return x.t
    return _const(x)


def is_sym(x):
    return isinstance(x, (SV, SB)) or getattr(x, '_symx_dual', False)


class SB:
    """symbolic bool; bool() forks"""
    __slots__ = ('t',)
    def __init__(self, t): self.t = t
    def __bool__(self): return ctx().decide(self.t)
    def __and__(self, o):
        if isinstance(o, _np.ndarray): return NotImplemented
        return mkbool(z3.And(self.t, bterm(o)))
    __rand__ = __and__
    def __or__(self, o):
        if isinstance(o, _np.ndarray): return NotImplemented
        return mkbool(z3.Or(self.t, bterm(o)))
    __ror__ = __or__
    def __xor__(self, o): return mkbool(z3.Xor(self.t, bterm(o)))
    __rxor__ = __xor__
    def __invert__(self): return mkbool(z3.Not(self.t))
    def __repr__(self): return f'SB({self.t})'
    __hash__ = None
    def __eq__(self, o):
        if isinstance(o, _np.ndarray): return NotImplemented
        return mkbool(self.t == bterm(o))
    def __ne__(self, o):
        if isinstance(o, _np.ndarray): return NotImplemented
        return mkbool(self.t != bterm(o))
    # numpy calls these on object arrays
    def logical_not(self): return ~self
    def conjugate(self): return self


def bterm(x):
    if isinstance(x, SB): return x.t
    if isinstance(x, SV): return x.t != 0
    return z3.BoolVal(bool(x))


def mkbool(t):
    t = z3.simplify(t)
    if z3.is_true(t): return True
    if z3.is_false(t): return False
    return SB(t)


def band(*xs):
    acc = True
    for v in xs:
        if isinstance(v, SB) or isinstance(acc, SB):
            acc = mkbool(z3.And(bterm(acc), bterm(v)))
        else:
            acc = acc and bool(v)
    return acc


def bor(*xs):
    acc = False
    for v in xs:
        if isinstance(v, SB) or isinstance(acc, SB):
            acc = mkbool(z3.Or(bterm(acc), bterm(v)))
        else:
            acc = acc or bool(v)
    return acc


def bnot(x):
    return ~x if isinstance(x, SB) else (not x)


def implies(a, b):
    return bor(bnot(a), b)


def _maxcases():
    c = ctx()
    return c.maxcases if c else 8


def cases_of(x):
    if isinstance(x, SV) and x.cases is not None: return x.cases
    return [(z3.BoolVal(True), term(x))]


def ite(c, a, b):
    if not isinstance(c, SB):
        return a if c else b
    if getattr(a, '_symx_dual', False) or getattr(b, '_symx_dual', False):
        from .dual import Dual
        n = len(a.d) if getattr(a, '_symx_dual', False) else len(b.d)
        a = Dual.lift(a, n); b = Dual.lift(b, n)
        return Dual(ite(c, a.v, b.v), [ite(c, x, y) for x, y in zip(a.d, b.d)])
    if not is_sym(a) and not is_sym(b):
        try:
            if a == b: return a
        except Exception:
            pass
    if isinstance(a, (SB, bool, _np.bool_)) and isinstance(b, (SB, bool, _np.bool_)):
        return mkbool(z3.If(c.t, bterm(a), bterm(b)))
    if isinstance(a, SV) and isinstance(b, SV) and a.cases is None and b.cases is None and a.t.eq(b.t):
        return a
    ca, cb = cases_of(a), cases_of(b)
    if len(ca) + len(cb) <= _maxcases():
        cs = [(z3.simplify(z3.And(c.t, g)), v) for g, v in ca] + \
             [(z3.simplify(z3.And(z3.Not(c.t), g)), v) for g, v in cb]
        cs = [(g, v) for g, v in cs if not z3.is_false(g)]
        return SV(cases=cs)
    return SV(z3.If(c.t, term(a), term(b)))


def lift2(a, b, f):
    """apply f(term, term) -> term case-wise"""
    ca, cb = cases_of(a), cases_of(b)
    if len(ca) == 1 and len(cb) == 1:
        return SV(f(ca[0][1], cb[0][1]))
    if len(ca) == len(cb) and all(g1.eq(g2) for (g1, _), (g2, _) in zip(ca, cb)):
        return SV(cases=[(g, f(x, y)) for (g, x), (_, y) in zip(ca, cb)])
    if len(ca) == 1:
        return SV(cases=[(g, f(ca[0][1], y)) for g, y in cb])
    if len(cb) == 1:
        return SV(cases=[(g, f(x, cb[0][1])) for g, x in ca])
    if len(ca) * len(cb) <= _maxcases():
        cs = []
        for g1, x in ca:
            for g2, y in cb:
                g = z3.simplify(z3.And(g1, g2))
                if not z3.is_false(g): cs.append((g, f(x, y)))
        return SV(cases=cs)
    return SV(f(term(a), term(b)))


def liftb(a, b, f):
    ca, cb = cases_of(a), cases_of(b)
    if len(ca) == 1 and len(cb) == 1:
        return mkbool(f(ca[0][1], cb[0][1]))
    if len(ca) == len(cb) and all(g1.eq(g2) for (g1, _), (g2, _) in zip(ca, cb)):
        return mkbool(z3.Or(*[z3.And(g, f(x, y)) for (g, x), (_, y) in zip(ca, cb)]))
    if len(ca) == 1:
        return mkbool(z3.Or(*[z3.And(g, f(ca[0][1], y)) for g, y in cb]))
    if len(cb) == 1:
        return mkbool(z3.Or(*[z3.And(g, f(x, cb[0][1])) for g, x in ca]))
    return mkbool(f(term(a), term(b)))


def _isnd(o):
    """operands that SV arithmetic leaves to the other side (arrays broadcast; dual numbers carry derivatives)"""
    return isinstance(o, _np.ndarray) or getattr(o, '_symx_dual', False)


class SV:
    """symbolic real/int scalar; optionally a guarded case list [(guard, term)] (ite-lifting)"""
    __slots__ = ('_t', 'cases')
    def __init__(self, t=None, cases=None):
        self._t = t; self.cases = cases
    @property
    def t(self):
        if self._t is None:
            cs = self.cases
            r = cs[-1][1]
            for g, v in reversed(cs[:-1]): r = z3.If(g, v, r)
            self._t = r
        return self._t
    @property
    def is_int(self):
        return self.t.sort() == z3.IntSort()
    def __repr__(self): return f'SV({z3.simplify(self.t)})'
    def __str__(self): return tokenize(self)
    def __format__(self, spec): return tokenize(self)
    # arithmetic
    def __add__(s, o):
        if _isnd(o): return NotImplemented
        if not is_sym(o) and _iszero(o): return s
        return lift2(s, o, lambda x, y: x + y)
    def __radd__(s, o):
        if _isnd(o): return NotImplemented
        if not is_sym(o) and _iszero(o): return s
        return lift2(o, s, lambda x, y: x + y)
    def __sub__(s, o):
        if _isnd(o): return NotImplemented
        if not is_sym(o) and _iszero(o): return s
        return lift2(s, o, lambda x, y: x - y)
    def __rsub__(s, o):
        if _isnd(o): return NotImplemented
        return lift2(o, s, lambda x, y: x - y)
    def __mul__(s, o):
        if _isnd(o): return NotImplemented
        if not is_sym(o):
            if _iszero(o): return 0.0 if isinstance(o, (float, _np.floating)) or not s.is_int else 0
            if o == 1: return s
        return lift2(s, o, lambda x, y: x * y)
    def __rmul__(s, o):
        if _isnd(o): return NotImplemented
        if not is_sym(o):
            if _iszero(o): return 0.0 if isinstance(o, (float, _np.floating)) or not s.is_int else 0
            if o == 1: return s
        return lift2(o, s, lambda x, y: x * y)
    def __truediv__(s, o):
        if _isnd(o): return NotImplemented
        return _div(s, o)
    def __rtruediv__(s, o):
        if _isnd(o): return NotImplemented
        return _div(o, s)
    def __floordiv__(s, o):
        if _isnd(o): return NotImplemented
        q = _div(s, o)
        return q.floor() if isinstance(q, SV) else math.floor(q)
    def __mod__(s, o):
        if _isnd(o): return NotImplemented
        return s - o * (s // o)
    def __neg__(s): return lift2(s, 0, lambda x, y: -x)
    def __pos__(s): return s
    def __abs__(s):
        if s.cases is not None and len(s.cases) > 1:
            return SV(cases=[(g, z3.If(v >= 0, v, -v)) for g, v in s.cases])
        return SV(z3.If(s.t >= 0, s.t, -s.t))
    def __pow__(s, e):
        if is_sym(e): raise Abort('symbolic exponent')
        if e == 0.5: return s.sqrt()
        if float(e).is_integer():
            e = int(e)
            if e >= 0:
                r = 1
                for _ in range(e): r = r * s
                return r
            return 1 / (s ** (-e))
        if float(e * 2).is_integer():
            return (s ** int(e * 2)).sqrt() if e > 0 else 1 / ((s ** int(-e * 2)).sqrt())
        return powfrac(s, e)
    def __rpow__(s, b): raise Abort('symbolic exponent')
    def conjugate(s): return s
    @property
    def real(s): return s
    @property
    def imag(s): return 0.0
    def sqrt(s):
        c = ctx()
        if s.cases is not None and len(s.cases) > 1:
            lows = [interval(z3.simplify(v), c.ranges)[0] for _, v in s.cases]
            if not all(l is not None and l >= 0 for l in lows):
                if not (s >= 0): raise Abort('sqrt of negative')
            return SV(cases=[(g, term(_sqrt_term(c, v, True))) for g, v in s.cases])
        st = z3.simplify(s.t)
        lo = interval(st, c.ranges)[0]
        if not (lo is not None and lo >= 0):
            if not (s >= 0):
                raise Abort('sqrt of negative')
        return _sqrt_term(c, st, False)
    def cos(s): return opaque('cos', s)
    def sin(s): return opaque('sin', s)
    def tan(s): return opaque('tan', s)
    def arccos(s): return opaque('acos', s)
    def arcsin(s): return opaque('asin', s)
    def arctan(s): return opaque('atan', s)
    def log(s): return opaque('log', s)
    def exp(s): return opaque('exp', s)
    def __floor__(s): return s.floor()
    def floor(s):
        if s.is_int: return s
        c = ctx()
        st = z3.simplify(s.t)
        if z3.is_rational_value(st) or z3.is_int_value(st):
            return SV(z3.IntVal(math.floor(_fr(st))))
        key = ('floor', st.sexpr())
        if key not in c.opaque:
            n = c.fresh('floor', 'I')
            c.opaque[key] = n
            c.__dict__.setdefault('floor_list', []).append(SV(n))
            c.axioms.append(z3.And(z3.ToReal(n) <= st, st < z3.ToReal(n) + 1))
        return SV(c.opaque[key])
    def __ceil__(s): return -((-s).floor())
    def ceil(s): return s.__ceil__()
    def rint(s): return (s + 0.5).floor()   # ties differ from numpy's half-even; harnesses avoid ties
    def __round__(s, n=None):
        if n: return (s * (10 ** int(n))).rint() / (10 ** int(n))
        return s.rint()
    def __trunc__(s): raise Abort('trunc of symbolic')
    # comparisons
    def __lt__(s, o):
        if _isnd(o): return NotImplemented
        if _isinf(o): return o > 0 and o == o
        return liftb(s, o, lambda x, y: x < y)
    def __le__(s, o):
        if _isnd(o): return NotImplemented
        if _isinf(o): return o > 0 and o == o
        return liftb(s, o, lambda x, y: x <= y)
    def __gt__(s, o):
        if _isnd(o): return NotImplemented
        if _isinf(o): return o < 0 and o == o
        return liftb(s, o, lambda x, y: x > y)
    def __ge__(s, o):
        if _isnd(o): return NotImplemented
        if _isinf(o): return o < 0 and o == o
        return liftb(s, o, lambda x, y: x >= y)
    def __eq__(s, o):
        if _isnd(o): return NotImplemented
        if _isinf(o): return False
        if isinstance(o, SB): o = SV(z3.If(o.t, z3.IntVal(1), z3.IntVal(0)))
        try: return liftb(s, o, lambda x, y: x == y)
        except TypeError: return False
    def __ne__(s, o):
        if _isnd(o): return NotImplemented
        if isinstance(o, SB): o = SV(z3.If(o.t, z3.IntVal(1), z3.IntVal(0)))
        try: return liftb(s, o, lambda x, y: x != y)
        except TypeError: return True
    __hash__ = None
    def __bool__(s): return bool(s != 0)
    def __float__(s):
        c = ctx(); c.aborted = 'float() of symbolic value'
        raise Abort(c.aborted)
    def __int__(s):
        if s.is_int: return ctx().concretize(s, what='int()')
        c = ctx(); c.aborted = 'int() of symbolic real'
        raise Abort(c.aborted)
    def __index__(s):
        if s.is_int: return ctx().concretize(s, what='index')
        raise TypeError("'float' object cannot be interpreted as an integer")
    def __complex__(s):
        c = ctx(); c.aborted = 'complex() of symbolic value'
        raise Abort(c.aborted)
    def astype(s, *a, **k): return s
    def item(s): return s
    def copy(s): return s
    def __copy__(s): return s
    def __deepcopy__(s, memo): return s
    @property
    def shape(s): return ()
    @property
    def ndim(s): return 0
    @property
    def dtype(s): return _np.dtype(object)


def _sqrt_term(c, st, nonneg_known):
    st = z3.simplify(st)
    if z3.is_rational_value(st) or z3.is_int_value(st):
        return math.sqrt(float(_fr(st)))
    key = ('sqrt', st.sexpr())
    if key in c.opaque:
        return SV(c.opaque[key])
    if len(free_vars(st)) <= 4:
        for k in (1, 0, 4, 9):          # constant forcing (e.g. the norm of a unit axis)
            if c.check(st != k, timeout_ms=min(c.timeout_ms, RESOLVE_TIMEOUT_MS)) == z3.unsat:
                return float(math.isqrt(k))
    r = c.fresh('sqrt')
    c.opaque[key] = r
    c.axioms.append(z3.And(r >= 0, r * r == st))
    lo, hi = interval(st, c.ranges)
    _set_range(c, r, _fsqrt(lo, False) if lo is not None and lo > 0 else Fraction(0), _fsqrt(hi, True) if hi is not None else None)
    return SV(r)


def _isinf(o):
    """non-finite float operand of a comparison with a (finite) symbolic value"""
    return isinstance(o, (float, _np.floating)) and (o != o or o in (float('inf'), float('-inf')))


def _iszero(o):
    try:
        return bool(o == 0) and not isinstance(o, (str, bytes))
    except Exception:
        return False


def _div(a, b):
    if is_sym(b):
        if (b == 0):
            if ctx().numpy_division:
                # numpy float64 semantics: inf/nan + RuntimeWarning, no exception; the non-finite path is not analysed
                ctx().aborted = 'division by zero (numpy: inf/nan)'
                raise Abort(ctx().aborted)
            raise ZeroDivisionError('symbolic division by zero')
        if not is_sym(a) and _iszero(a): return 0.0
        return lift2(a, b, lambda x, y: _real(x) / _real(y))
    if b == 0:
        if ctx().numpy_division:
            ctx().aborted = 'division by zero (numpy: inf/nan)'
            raise Abort(ctx().aborted)
        raise ZeroDivisionError('division by zero')
    if b == 1: return a if not a.is_int else SV(z3.ToReal(a.t))
    return lift2(a, b, lambda x, y: _real(x) / _real(y))


def _real(t):
    return z3.ToReal(t) if t.sort() == z3.IntSort() else t


def powfrac(s, e):
    """s**e for a non-half rational exponent: opaque with key (still functionally consistent)"""
    return opaque(f'pow[{e}]', s)


_RANGE = {'cos': (-1, 1), 'sin': (-1, 1)}
def opaque(fn, s):
    """transcendental application as a memoised fresh real (hand Ackermannisation on the
    simplified argument); range facts as axioms"""
    c = ctx()
    st = z3.simplify(s.t, som=True)
    key = (fn, st.sexpr())
    # trusted lemma L1: cos(arccos x) = x (and sin(arcsin x) = x, tan(arctan x) = x, exp(log x) = x)
    inv_of = {'cos': 'acos', 'sin': 'asin', 'tan': 'atan', 'exp': 'log'}.get(fn)
    if inv_of and z3.is_const(st) and st.decl().kind() == z3.Z3_OP_UNINTERPRETED:
        hit = c.opaque_args.get(st.decl().name())
        if hit is not None and hit[0] == inv_of:
            c.notes.append(f'lemma {fn}({inv_of} x) = x used')
            return hit[1]
    if key not in c.opaque:
        v = z3.Real(f'{fn}!{len(c.opaque)}')
        c.opaque[key] = v
        if fn in _RANGE:
            c.axioms.append(z3.And(v >= _RANGE[fn][0], v <= _RANGE[fn][1]))
            c.ranges[v.decl().name()] = (Fraction(_RANGE[fn][0]), Fraction(_RANGE[fn][1]))
        if fn == 'acos':
            c.axioms.append(z3.And(v >= 0, v <= _const(math.pi)))
            c.axioms.append(z3.Implies(st < 1, v > 0)); c.axioms.append(z3.Implies(st > -1, v < _const(math.pi)))
            # anchors of arccos at 0 and +-1/2 (90, 60, 120 degrees): exact value, monotonicity, two-sided Lipschitz
            # bounds in a window (|acos'| = 1/sqrt(1-x^2)); P is the binary64 pi as a rational
            P = _const(math.pi)
            for x0, v0, k1, k2 in ((0, P / 2, Fraction(999, 1000), Fraction(102, 100)), (Fraction(1, 2), P / 3, Fraction(104, 100), Fraction(141, 100)),
                                   (Fraction(-1, 2), 2 * P / 3, Fraction(104, 100), Fraction(141, 100))):
                x0z = z3.RealVal(str(x0)); k1z = z3.RealVal(str(k1)); k2z = z3.RealVal(str(k2))
                c.axioms.append(z3.Implies(st == x0z, v == v0))
                c.axioms.append(z3.Implies(st > x0z, v < v0)); c.axioms.append(z3.Implies(st < x0z, v > v0))
                win = z3.And(st - x0z <= z3.RealVal('1/5'), x0z - st <= z3.RealVal('1/5'))
                c.axioms.append(z3.Implies(z3.And(win, st >= x0z), z3.And(v0 - v >= k1z * (st - x0z), v0 - v <= k2z * (st - x0z) + z3.RealVal('1/1000000000000'))))
                c.axioms.append(z3.Implies(z3.And(win, st <= x0z), z3.And(v - v0 >= k1z * (x0z - st), v - v0 <= k2z * (x0z - st) + z3.RealVal('1/1000000000000'))))
                c.axioms.append(z3.Implies(st - x0z >= z3.RealVal('1/5'), v0 - v >= z3.RealVal('1/5')))
                c.axioms.append(z3.Implies(x0z - st >= z3.RealVal('1/5'), v - v0 >= z3.RealVal('1/5')))
        if fn == 'exp':
            c.axioms.append(v > 0)
        if fn == 'atan':
            P2 = _const(math.pi) / 2
            c.axioms.append(z3.And(v > -P2, v < P2))
            c.axioms.append(z3.Implies(st > 0, v > 0)); c.axioms.append(z3.Implies(st < 0, v < 0)); c.axioms.append(z3.Implies(st == 0, v == 0))
            c.ranges[v.decl().name()] = (Fraction(-158, 100), Fraction(158, 100))
        c.opaque_args[v.decl().name()] = (fn, s)
        if getattr(c, 'opaque_congruence', False):
            # opt-in (harness): congruence and, for arccos, strict antitonicity against the earlier applications of the same
            # function (syntactically different arguments that the path forces to be equal must give equal values)
            prev = c.__dict__.setdefault('opaque_apps', {}).setdefault(fn, [])
            for st0, v0 in prev[-12:]:
                c.axioms.append(z3.Implies(st == st0, v == v0))
                if fn == 'acos':
                    c.axioms.append(z3.Implies(st < st0, v > v0)); c.axioms.append(z3.Implies(st > st0, v < v0))
            prev.append((st, v))
    return SV(c.opaque[key])


# tokens for text output ---------------------------------------------------------------
TOKENS = {}
def tokenize(sv):
    k = f'@@{len(TOKENS)}@@'
    TOKENS[k] = sv
    return k


# ---------------------------------------------------------------- inputs / assumptions / obligations
def var(name, lo=None, hi=None, integer=False, deadzone=None):
    """declare a symbolic input.  In concrete (replay) mode returns the model's value."""
    c = ctx()
    if c.concrete is not None:
        v = c.concrete[name]
        return int(v) if integer else float(v)
    z = z3.Int(name) if integer else z3.Real(name)
    c.inputs[name] = z
    v = SV(z)
    if lo is not None: assume(v >= lo)
    if hi is not None: assume(v <= hi)
    c.ranges[name] = (None if lo is None else Fraction(repr(lo)) if isinstance(lo, float) else Fraction(lo),
                      None if hi is None else Fraction(repr(hi)) if isinstance(hi, float) else Fraction(hi))
    if deadzone is not None:
        assume((v == 0) | (v >= deadzone) | (v <= -deadzone))
    return v


def assume_range(x, lo, hi):
    """assume lo <= x <= hi for a derived term and make the enclosure known to the interval
    analysis (used for the bounds of max/min/sqrt auxiliaries)"""
    if not isinstance(x, SV):
        if not (lo <= x <= hi): raise Abort('assumption false')
        return
    c = ctx()
    assume(x >= lo); assume(x <= hi)
    t = z3.simplify(x.t)
    f = lambda v: Fraction(repr(v)) if isinstance(v, float) else Fraction(v)
    for tt in (t, x.t):
        if z3.is_const(tt) and tt.decl().kind() == z3.Z3_OP_UNINTERPRETED:
            c.ranges[tt.decl().name()] = (f(lo), f(hi))
        c.ranges.setdefault('#terms', {})[tt.get_id()] = (tt, (f(lo), f(hi)))


def assume(b):
    c = ctx()
    if isinstance(b, SB):
        c.pc.append(b.t); c.assumed.append(b.t)
    elif isinstance(b, SV):
        assume(b != 0)
    elif not b:
        raise Abort('assumption false')


TOL = 1e-6
def _pl(x):
    """NumPy scalars / 0-d arrays as plain Python values (their comparison operators do not defer to SV)"""
    if isinstance(x, _np.generic): return x.item()
    if isinstance(x, _np.ndarray) and x.ndim == 0: return x[()]
    return x
def eq(a, b, scale=None):
    """obligation-level equality: exact in symbolic mode, tolerant in concrete replay mode"""
    a = _pl(a); b = _pl(b)
    if is_sym(a) or is_sym(b):
        return a == b
    a = float(a); b = float(b)
    s = scale if scale is not None else max(1.0, abs(a), abs(b))
    return abs(a - b) <= TOL * s
def le(a, b, scale=None):
    a = _pl(a); b = _pl(b)
    if is_sym(a) or is_sym(b):
        return a <= b
    s = scale if scale is not None else max(1.0, abs(a), abs(b))
    return float(a) <= float(b) + TOL * s
def lt(a, b, scale=None):
    a = _pl(a); b = _pl(b)
    if is_sym(a) or is_sym(b):
        return a < b
    s = scale if scale is not None else max(1.0, abs(a), abs(b))
    return float(a) < float(b) + TOL * s
def close(a, b, tol=1e-9, scale=1.0):
    """|a-b| <= tol*scale in symbolic mode (for obligations that pass through a numeric threshold
    or a float constant such as cos(90 deg) = 6e-17); tolerant float comparison in replay"""
    a = _pl(a); b = _pl(b)
    if is_sym(a) or is_sym(b):
        return band(a - b <= tol * scale, b - a <= tol * scale)
    return abs(float(a) - float(b)) <= tol * scale + 1e-9 * max(abs(float(a)), abs(float(b)), 1.0)


def alleq(A, B, scale=None):
    A = _np.asarray(A, dtype=object); B = _np.asarray(B, dtype=object)
    if A.shape != B.shape:
        return False
    return band(*[eq(x, y, scale) for x, y in zip(A.flat, B.flat)])


# ---------------------------------------------------------------- arrays
CMP = {_np.less, _np.less_equal, _np.greater, _np.greater_equal, _np.equal, _np.not_equal,
       _np.logical_and, _np.logical_or, _np.logical_not, _np.bitwise_and, _np.bitwise_or, _np.invert,
       _np.logical_xor, _np.bitwise_xor}
_UF_METH = {_np.sqrt: 'sqrt', _np.cos: 'cos', _np.sin: 'sin', _np.arccos: 'arccos', _np.arctan: 'arctan',
            _np.log: 'log', _np.exp: 'exp', _np.floor: 'floor', _np.ceil: 'ceil', _np.rint: 'rint',
            _np.arcsin: 'arcsin', _np.tan: 'tan'}


def _el_logical(ufunc):
    if ufunc in (_np.logical_and, _np.bitwise_and): return lambda a, b: band(_tb(a), _tb(b))
    if ufunc in (_np.logical_or, _np.bitwise_or): return lambda a, b: bor(_tb(a), _tb(b))
    if ufunc in (_np.logical_xor, _np.bitwise_xor): return lambda a, b: (_tb(a) ^ _tb(b)) if (isinstance(a, SB) or isinstance(b, SB)) else (bool(a) != bool(b))
    if ufunc in (_np.logical_not, _np.invert): return lambda a: bnot(_tb(a))
    return None


def _tb(x):
    if isinstance(x, SB): return x
    if isinstance(x, SV): return x != 0
    return bool(x)


class SA(_np.ndarray):
    """object ndarray whose comparison ufuncs stay symbolic and whose stores honour the
    predication stack and symbolic masks"""
    def __array_ufunc__(self, ufunc, method, *inputs, out=None, **kw):
        ins = [i.view(_np.ndarray) if isinstance(i, SA) else i for i in inputs]
        if out is not None:
            kw['out'] = tuple(o.view(_np.ndarray) if isinstance(o, SA) else o for o in out)
        if method == '__call__':
            lf = _el_logical(ufunc)
            if lf is not None and any(isinstance(i, _np.ndarray) and i.dtype == object for i in ins):
                r = _np.frompyfunc(lf, len(ins), 1)(*ins)
                if ufunc in (_np.invert, _np.logical_not) and getattr(ctx(), 'force_masks', False):
                    # the mask is about to index a plain (non-symbolic) array: decide every element (forks)
                    r = _np.frompyfunc(lambda v: bool(v), 1, 1)(r).astype(bool)
                    return r
                return _finish_bool(r)
            if ufunc in CMP:
                kw['dtype'] = object
                r = getattr(ufunc, method)(*ins, **kw)
                return _finish_bool(r)
            if ufunc in _UF_METH:
                m = _UF_METH[ufunc]
                r = _np.frompyfunc(lambda x: getattr(x, m)() if (isinstance(x, SV) or getattr(x, '_symx_dual', False)) else float(ufunc(float(x))), 1, 1)(*ins)
                return _wrap(r)
            if ufunc is _np.absolute:
                return _wrap(_np.frompyfunc(abs, 1, 1)(*ins))
            if ufunc is _np.sign:
                return _wrap(_np.frompyfunc(sign, 1, 1)(*ins))
            if ufunc in (_np.maximum, _np.minimum):
                f = (lambda a, b: ite(a >= b, a, b)) if ufunc is _np.maximum else (lambda a, b: ite(a <= b, a, b))
                return _wrap(_np.frompyfunc(f, 2, 1)(*ins))
            if ufunc in (_np.isfinite,):
                return _np.ones(_np.shape(ins[0]), dtype=bool)
            if ufunc in (_np.isnan, _np.isinf):
                return _np.zeros(_np.shape(ins[0]), dtype=bool)
        r = getattr(ufunc, method)(*ins, **kw)
        return _wrap(r)
    def __array_function__(self, func, types_, args, kwargs):
        f = OVERRIDES.get(func)
        if f is not None:
            return f(*args, **kwargs)
        r = func(*_strip(args), **_strip(kwargs))
        return _wrap(r)
    def max(self, *a, **k): return amax(self, *a, **k)
    def min(self, *a, **k): return amin(self, *a, **k)
    def round(self, decimals=0, out=None): return npshim.round(self, decimals)
    def all(self, axis=None, **k): return aall(self, axis)
    def any(self, axis=None, **k): return aany(self, axis)
    def astype(self, dtype, *a, **k):
        dt = _np.dtype(dtype)
        if dt == object or dt.kind in 'fc' or (dt.kind in 'iub' and _has_sym(self)):
            if _has_sym(self): return self.copy()
        return self.view(_np.ndarray).astype(dtype, *a, **k)
    def __bool__(self):
        if self.size == 1:
            return bool(self.flat[0])
        raise ValueError('The truth value of an array with more than one element is ambiguous.')
    def __getitem__(self, idx):
        idx2 = _prep_index(idx)
        r = _np.ndarray.__getitem__(self, idx2)
        return r
    def __setitem__(self, idx, val):
        if isinstance(idx, _np.ndarray) and idx.dtype == object and _has_sb(idx):
            return _masked_store(self, idx, val)
        idx = _prep_index(idx)
        c = ctx()
        g = c.guards if c else None
        if g:
            old = self.view(_np.ndarray)[idx]
            cond = g[-1]
            new = _np.broadcast_to(_np.asarray(val, dtype=object), _np.shape(old))
            if _np.shape(old) == ():
                val = ite(cond, val if not isinstance(val, _np.ndarray) else val[()], old)
            else:
                m = _np.empty(_np.shape(old), dtype=object)
                for k in _np.ndindex(m.shape):
                    m[k] = ite(cond, new[k], old[k])
                val = m
        if isinstance(val, SA): val = val.view(_np.ndarray)
        _np.ndarray.__setitem__(self.view(_np.ndarray), idx, val)


def _prep_index(idx):
    """symbolic boolean masks used for *reading* fork on every element (result length must be
    concrete); symbolic integer indices are concretised by __index__"""
    if isinstance(idx, tuple):
        return tuple(_prep_index(i) for i in idx)
    if isinstance(idx, _np.ndarray) and idx.dtype == object:
        flat = list(idx.flat)
        if any(isinstance(v, SB) for v in flat) or all(isinstance(v, (bool, _np.bool_, SB)) for v in flat) and flat:
            return _np.array([bool(v) for v in flat], dtype=bool).reshape(idx.shape)
        if any(isinstance(v, SV) for v in flat):
            if any((isinstance(v, SV) and not v.is_int) or isinstance(v, float) for v in flat):
                raise IndexError('arrays used as indices must be of integer (or boolean) type')
            return _np.array([int(v) for v in flat], dtype=int).reshape(idx.shape)
    if isinstance(idx, SV):
        if not idx.is_int:
            raise IndexError('only integers, slices (`:`), ellipsis (`...`), numpy.newaxis (`None`) and integer or boolean arrays are valid indices')
        return int(idx)
    if isinstance(idx, SB):
        return bool(idx)
    if isinstance(idx, list) and any(is_sym(v) for v in idx):
        return _prep_index(_np.array(idx, dtype=object))
    return idx


def _has_sym(a):
    return any(is_sym(v) for v in _np.asarray(a, dtype=object).flat)
def _has_sb(a):
    return any(isinstance(v, SB) for v in a.flat)


def _masked_store(arr, mask, val):
    base = arr.view(_np.ndarray)
    mask = mask.view(_np.ndarray)
    if mask.shape != base.shape:
        # row mask on an (N, ...) array
        if mask.ndim == 1 and mask.shape[0] == base.shape[0]:
            v = _np.asarray(val, dtype=object)
            # numpy semantics for arr[mask] = v with v of shape (k, ...) need concrete k
            if v.ndim >= 1 and v.shape[0] not in (1,) and v.ndim == base.ndim:
                m = _np.array([bool(x) for x in mask], dtype=bool)
                base[m] = v
                return
            vb = _np.broadcast_to(v, base.shape[1:]) if v.ndim < base.ndim else _np.broadcast_to(v[0], base.shape[1:])
            for i in range(base.shape[0]):
                cnd = _resolve(mask[i])
                for k in _np.ndindex(base.shape[1:]):
                    base[(i,) + k] = ite(cnd, vb[k], base[(i,) + k])
            return
        m = _np.array([bool(x) for x in mask.flat], dtype=bool).reshape(mask.shape)
        base[m] = val
        return
    v = _np.asarray(val, dtype=object)
    if v.ndim >= 1 and v.shape != base.shape and v.size != 1:
        m = _np.array([bool(x) for x in mask.flat], dtype=bool).reshape(mask.shape)
        base[m] = val
        return
    v = _np.broadcast_to(v, base.shape)
    cx = ctx()
    for k in _np.ndindex(base.shape):
        c = mask[k]
        if isinstance(c, SB) and getattr(cx, 'resolve_masks', True):
            # cheapest first: is the overwrite a no-op whenever the mask holds? (the near-zero thresholds under
            # a dead-zone assumption: mask => value == 0)
            if not (getattr(v[k], '_symx_dual', False) or getattr(base[k], '_symx_dual', False)):
                if cx.check(c.t, term(v[k]) != term(base[k]), timeout_ms=min(cx.timeout_ms, RESOLVE_TIMEOUT_MS)) == z3.unsat:
                    continue
            c = _resolve(c)
        base[k] = ite(c if isinstance(c, SB) else bool(c), v[k], base[k])


def _resolve(c):
    """decide a symbolic condition from the path condition if it is already implied"""
    if not isinstance(c, SB): return bool(c)
    cx = ctx()
    if not getattr(cx, 'resolve_masks', True): return c
    memo = cx.__dict__.setdefault('resolve_memo', {})
    k = c.t.get_id()
    hit = memo.get(k)
    if hit is not None and hit[0].eq(c.t): return hit[1]
    tm = min(cx.timeout_ms, RESOLVE_TIMEOUT_MS)
    if cx.check(c.t, timeout_ms=tm) == z3.unsat: r = False
    elif cx.check(z3.Not(c.t), timeout_ms=tm) == z3.unsat: r = True
    else: r = c
    if r is not c: memo[k] = (c.t, r)      # implied facts stay implied as the path condition grows
    return r


def _finish_bool(r):
    if isinstance(r, _np.ndarray):
        if r.dtype == object:
            if not any(isinstance(v, SB) for v in r.flat):
                return r.astype(bool)
            return r.view(SA)
        return r
    return r


def _strip(x):
    if isinstance(x, SA): return x.view(_np.ndarray)
    if isinstance(x, tuple): return tuple(_strip(i) for i in x)
    if isinstance(x, list): return [_strip(i) for i in x]
    if isinstance(x, dict): return {k: _strip(v) for k, v in x.items()}
    return x


def _wrap(r):
    if isinstance(r, _np.ndarray) and r.dtype == object and not isinstance(r, SA):
        return r.view(SA)
    if isinstance(r, tuple): return tuple(_wrap(i) for i in r)
    if isinstance(r, list): return [_wrap(i) for i in r]
    return r


def sa(x):
    """make an array of the given (possibly symbolic) values: SA in symbolic mode, float array
    in concrete mode"""
    a = _np.asarray(x, dtype=object)
    if not _has_sym(a):
        try:
            return _np.asarray(a.tolist(), dtype=float)
        except (TypeError, ValueError):
            pass
    return a.view(SA)


def sign(x):
    if isinstance(x, SV):
        return ite(x > 0, 1.0, ite(x < 0, -1.0, 0.0))
    return float(_np.sign(x))


def amax(a, axis=None, **k):
    a = _np.asarray(a).view(_np.ndarray)
    if axis is None:
        vals = list(a.flat)
        if not any(is_sym(v) for v in vals): return max(vals)
        if len(vals) == 1: return vals[0]
        c = ctx()
        key = ('max',) + tuple(term(v).get_id() for v in vals)
        if key in c.opaque: return SV(c.opaque[key][0])
        m = c.fresh('max', 'I' if all(_isint(v) for v in vals) else 'R')
        c.opaque[key] = (m, [term(v) for v in vals])
        c.last_max = SV(m)
        for v in vals: c.axioms.append(m >= term(v))
        c.axioms.append(z3.Or(*[m == term(v) for v in vals]))
        ivs = [interval(term(v), c.ranges) for v in vals]
        _set_range(c, m, None if all(i[0] is None for i in ivs) else max(i[0] for i in ivs if i[0] is not None),
                   None if any(i[1] is None for i in ivs) else max(i[1] for i in ivs))
        return SV(m)
    return _wrap(_np.apply_along_axis(lambda v: amax(v), axis, a))


def amin(a, axis=None, **k):
    a = _np.asarray(a).view(_np.ndarray)
    if axis is None:
        vals = list(a.flat)
        if not any(is_sym(v) for v in vals): return min(vals)
        if len(vals) == 1: return vals[0]
        c = ctx()
        key = ('min',) + tuple(term(v).get_id() for v in vals)
        if key in c.opaque: return SV(c.opaque[key][0])
        m = c.fresh('min', 'I' if all(_isint(v) for v in vals) else 'R')
        c.opaque[key] = (m, [term(v) for v in vals])
        for v in vals: c.axioms.append(m <= term(v))
        c.axioms.append(z3.Or(*[m == term(v) for v in vals]))
        ivs = [interval(term(v), c.ranges) for v in vals]
        _set_range(c, m, None if any(i[0] is None for i in ivs) else min(i[0] for i in ivs),
                   None if all(i[1] is None for i in ivs) else min(i[1] for i in ivs if i[1] is not None))
        return SV(m)
    return _wrap(_np.apply_along_axis(lambda v: amin(v), axis, a))


def _isint(v):
    if isinstance(v, SV): return v.is_int
    return isinstance(v, (int, _np.integer)) and not isinstance(v, bool)


def aall(a, axis=None, **k):
    a = _np.asarray(a).view(_np.ndarray)
    if axis is None:
        return band(*[_tb(v) for v in a.flat])
    return _finish_bool(_np.apply_along_axis(lambda v: _np.array(aall(v), dtype=object), axis, a))


def aany(a, axis=None, **k):
    a = _np.asarray(a).view(_np.ndarray)
    if axis is None:
        return bor(*[_tb(v) for v in a.flat])
    return _finish_bool(_np.apply_along_axis(lambda v: _np.array(aany(v), dtype=object), axis, a))


def isclose(a, b, rtol=1e-5, atol=1e-8, equal_nan=False):
    if not (_is_symarr(a) or _is_symarr(b)):
        return _np.isclose(_tofloat(a), _tofloat(b), rtol=rtol, atol=atol, equal_nan=equal_nan)
    a = _np.asarray(a, dtype=object); b = _np.asarray(b, dtype=object)
    f = _np.frompyfunc(lambda x, y: (abs(x - y) <= atol + rtol * abs(y)), 2, 1)
    r = f(a, b)
    if isinstance(r, _np.ndarray):
        return _finish_bool(r)
    return r


def allclose(a, b, rtol=1e-5, atol=1e-8, equal_nan=False):
    r = isclose(a, b, rtol, atol)
    return band(*[v for v in _np.asarray(r, dtype=object).flat])


def _is_symarr(x):
    if is_sym(x): return True
    if isinstance(x, _np.ndarray): return x.dtype == object and _has_sym(x)
    if isinstance(x, (list, tuple)): return any(_is_symarr(v) for v in x)
    return False


def _tofloat(x):
    if isinstance(x, _np.ndarray) and x.dtype == object:
        return _np.asarray(x.tolist(), dtype=float)
    return x


def det3(M):
    return (M[0][0] * (M[1][1] * M[2][2] - M[1][2] * M[2][1]) - M[0][1] * (M[1][0] * M[2][2] - M[1][2] * M[2][0])
            + M[0][2] * (M[1][0] * M[2][1] - M[1][1] * M[2][0]))


def det(M):
    M = _np.asarray(M)
    if not _is_symarr(M):
        return _np.linalg.det(_tofloat(M))
    n = M.shape[0]
    assert M.shape == (n, n)
    if n == 1: return M[0, 0]
    if n == 2: return M[0, 0] * M[1, 1] - M[0, 1] * M[1, 0]
    if n == 3: return det3(M)
    tot = 0
    for j in range(n):
        minor = _np.delete(_np.delete(M.view(_np.ndarray), 0, 0), j, 1)
        tot = tot + ((-1) ** j) * M[0, j] * det(minor)
    return tot


def inv(M):
    M = _np.asarray(M)
    if not _is_symarr(M):
        return _np.linalg.inv(_tofloat(M))
    n = M.shape[0]
    if M.shape != (n, n): raise _np.linalg.LinAlgError('Last 2 dimensions of the array must be square')
    if n > 3:
        return inv_stub(M)
    d = det(M)
    if (d == 0): raise _np.linalg.LinAlgError('Singular matrix')
    C = _np.empty((n, n), dtype=object)
    for i in range(n):
        for j in range(n):
            if n == 1:
                minor = 1
            else:
                sub = _np.delete(_np.delete(M.view(_np.ndarray), i, 0), j, 1)
                minor = det(sub)
            C[j][i] = ((-1) ** (i + j)) * minor / d
    return C.view(SA)


def inv_stub(M):
    """contract stub: X with M.X = I and X.M = I (fresh unknowns); obligation det != 0 is not
    expanded for n > 3 (stated in the evidence as an assumption)"""
    c = ctx()
    n = M.shape[0]
    Mv = M.view(_np.ndarray)
    for Xp, Ap in getattr(c, 'inv_memo', []):
        if Xp.shape == Mv.shape and all((isinstance(a, SV) and isinstance(b, SV) and a.t.eq(b.t)) or (not is_sym(a) and not is_sym(b) and a == b)
                                         for a, b in zip(Xp.flat, Mv.flat)):
            c.notes.append('lemma inverse-of-inverse used')
            return Ap.copy().view(SA)          # trusted lemma: (A^-1)^-1 = A
        if Ap.shape == Mv.shape and all((isinstance(a, SV) and isinstance(b, SV) and a.t.eq(b.t)) or (not is_sym(a) and not is_sym(b) and a == b)
                                         for a, b in zip(Ap.flat, Mv.flat)):
            return Xp.copy().view(SA)          # the inverse is a function of its argument
    X = _np.empty((n, n), dtype=object)
    same = lambda a, b: (isinstance(a, SV) and isinstance(b, SV) and a.t.eq(b.t)) or (not is_sym(a) and not is_sym(b) and a == b)
    symm = all(same(Mv[i, j], Mv[j, i]) for i in range(n) for j in range(i))
    if symm: c.notes.append('lemma: the inverse of a symmetric matrix is symmetric')
    for i in range(n):
        for j in range(n):
            X[i, j] = X[j, i] if (symm and j < i) else SV(c.fresh('inv'))
    P = _np.dot(M.view(_np.ndarray), X)
    Q = _np.dot(X, M.view(_np.ndarray))
    for i in range(n):
        for j in range(n):
            c.axioms.append(term(P[i, j]) == (1 if i == j else 0))
            c.axioms.append(term(Q[i, j]) == (1 if i == j else 0))
    c.notes.append(f'inv_stub {n}x{n}')
    if not hasattr(c, 'inv_memo'): c.inv_memo = []
    c.inv_memo.append((X.copy(), _np.array(Mv, dtype=object)))
    return X.view(SA)


def solve(A, B):
    A = _np.asarray(A); B = _np.asarray(B)
    # shape fidelity: adopt real numpy's shape semantics / exceptions
    ref = _np.linalg.solve(_np.eye(A.shape[-1]) if A.ndim == 2 else _np.broadcast_to(_np.eye(A.shape[-1]), A.shape),
                           _np.zeros(B.shape))
    if not (_is_symarr(A) or _is_symarr(B)):
        return _np.linalg.solve(_tofloat(A), _tofloat(B))
    if A.ndim != 2: raise Abort('stacked solve with symbolic operands')
    Ai = inv(A)
    r = _np.dot(_np.asarray(Ai, dtype=object), _np.asarray(B, dtype=object))
    assert _np.shape(r) == ref.shape, (r.shape, ref.shape)
    return _wrap(_np.asarray(r, dtype=object))


def lstsq(A, B, rcond=None):
    A = _np.asarray(A); B = _np.asarray(B)
    if not (_is_symarr(A) or _is_symarr(B)):
        return _np.linalg.lstsq(_tofloat(A), _tofloat(B), rcond=rcond)
    if A.ndim == 2 and A.shape[0] == A.shape[1]:
        X = solve(A, B)       # square full-rank contract
        return X, _np.array([]), A.shape[0], None
    # normal equations
    At = _np.asarray(A, dtype=object).T
    X = solve(_np.dot(At, _np.asarray(A, dtype=object)), _np.dot(At, _np.asarray(B, dtype=object)))
    return X, _np.array([]), A.shape[1], None


def norm(x, ord=None, axis=None, keepdims=False):
    if not _is_symarr(x):
        return _np.linalg.norm(_tofloat(_np.asarray(x)), ord=ord, axis=axis, keepdims=keepdims)
    if ord not in (None, 2): raise Abort(f'norm ord={ord}')
    x = _np.asarray(x, dtype=object)
    if axis is None:
        s = 0
        for v in x.flat: s = s + v * v
        return s ** 0.5 if is_sym(s) else math.sqrt(s)
    r = _np.apply_along_axis(lambda v: _np.array(norm(v), dtype=object), axis, x)
    if keepdims: r = _np.expand_dims(r, axis)
    return _wrap(r)


def cross(a, b, axis=-1, **k):
    a = _np.asarray(a, dtype=object); b = _np.asarray(b, dtype=object)
    if axis != -1 or k: raise Abort('cross with axis')
    a, b = _np.broadcast_arrays(a, b)
    out = _np.empty(a.shape, dtype=object)
    out[..., 0] = a[..., 1] * b[..., 2] - a[..., 2] * b[..., 1]
    out[..., 1] = a[..., 2] * b[..., 0] - a[..., 0] * b[..., 2]
    out[..., 2] = a[..., 0] * b[..., 1] - a[..., 1] * b[..., 0]
    return _wrap(out)


def where(cond, *xy):
    if not xy:
        c = _np.asarray(cond)
        if c.dtype == object:
            c = _np.array([bool(v) for v in c.flat], dtype=bool).reshape(c.shape)
        return _np.where(c)
    x, y = xy
    c = _np.asarray(cond, dtype=object)
    if not _has_sb(c):
        return _wrap(_np.where(c.astype(bool), _strip(x), _strip(y)))
    r = _np.frompyfunc(ite, 3, 1)(c, _np.asarray(x, dtype=object), _np.asarray(y, dtype=object))
    return _wrap(r)


def real_if_close(a, tol=100):
    return a


def argmin(a, axis=None):
    a = _np.asarray(a, dtype=object)
    if not _has_sym(a): return _np.argmin(_tofloat(a), axis=axis)
    if axis is not None: raise Abort('argmin axis')
    vals = list(a.flat); best = 0
    for i in range(1, len(vals)):
        if vals[i] < vals[best]: best = i
    return best


def argmax(a, axis=None):
    a = _np.asarray(a, dtype=object)
    if not _has_sym(a): return _np.argmax(_tofloat(a), axis=axis)
    if axis is not None: raise Abort('argmax axis')
    vals = list(a.flat); best = 0
    for i in range(1, len(vals)):
        if vals[i] > vals[best]: best = i
    return best


def asum(a, axis=None, **k):
    a = _np.asarray(a)
    return _wrap(_np.sum(a.view(_np.ndarray), axis=axis, **k))


def sort_(a, axis=-1, **k):
    a = _np.asarray(a, dtype=object)
    if not _has_sym(a): return _np.sort(_tofloat(a), axis=axis)
    if a.ndim != 1: raise Abort('sort nd symbolic')
    vals = list(a)
    # insertion sort, forks on comparisons
    for i in range(1, len(vals)):
        j = i
        while j > 0 and (vals[j] < vals[j - 1]):
            vals[j], vals[j - 1] = vals[j - 1], vals[j]; j -= 1
    return sa(vals)


def trace_(a, *args, **k):
    a = _np.asarray(a, dtype=object)
    return _np.trace(a.view(_np.ndarray), *args, **k)


OVERRIDES = {_np.linalg.inv: inv, _np.isclose: isclose, _np.allclose: allclose,
             _np.linalg.norm: norm, _np.max: amax, _np.amax: amax, _np.min: amin, _np.amin: amin,
             _np.linalg.det: det, _np.linalg.solve: solve, _np.linalg.lstsq: lstsq,
             _np.cross: cross, _np.where: where, _np.all: aall, _np.any: aany,
             _np.real_if_close: real_if_close, _np.argmin: argmin, _np.argmax: argmax,
             _np.sort: sort_}


# ---------------------------------------------------------------- numpy shim module
class _Linalg:
    inv = staticmethod(inv); norm = staticmethod(norm); det = staticmethod(det)
    solve = staticmethod(solve); lstsq = staticmethod(lstsq)
    LinAlgError = _np.linalg.LinAlgError
    def __getattr__(self, n):
        f = getattr(_np.linalg, n)
        if callable(f):
            def guarded(*a, **k):
                if any(_is_symarr(x) for x in a):
                    c = ctx(); c.aborted = f'np.linalg.{n} on symbolic values'
                    raise Abort(c.aborted)
                return f(*[_tofloat(x) for x in a], **k)
            return guarded
        return f


class NPShim(types.ModuleType):
    """stands in for the module global `np` of the *target* modules during symbolic runs"""
    def __init__(self):
        super().__init__('numpy_shim')
        self.linalg = _Linalg()
    def __getattr__(self, n):
        return getattr(_np, n)
    @staticmethod
    def _isfloat(dtype):
        if dtype is None: return True
        try:
            return _np.dtype(dtype).kind in 'fc'
        except TypeError:
            return False
    def asarray(self, x, dtype=None, **k):
        if isinstance(x, SV):
            r = _np.empty((), dtype=object); r[()] = x; return r.view(SA)
        if isinstance(x, _np.ndarray) and x.dtype == object:
            # an existing object array stays what it is (no copy: asarray keeps aliasing; it may receive symbolic
            # values later even if it holds none now)
            if dtype is not None and _np.dtype(dtype).kind in 'SU':
                if _has_sym(x): raise Abort('string conversion of symbolic array')
                return _np.asarray(x, dtype=dtype)
            if dtype is not None and _np.dtype(dtype).kind in 'iub' and not _has_sym(x):
                return _np.asarray(x.tolist(), dtype=dtype)
            return x if isinstance(x, SA) else x.view(SA)
        if isinstance(x, _np.ndarray): a = x
        else:
            try:
                a = _np.asarray(x)
            except ValueError:
                # ragged nested sequence: legal in NumPy only with dtype=object (1-D array of the original items)
                if dtype is not None and _np.dtype(dtype) == _np.dtype(object): return _np.asarray(x, dtype=object)
                raise
        if a.dtype == object:
            if _has_sym(a):
                if dtype is not None and _np.dtype(dtype).kind in 'SU':
                    raise Abort('string conversion of symbolic array')
                return a.view(SA)
            try:
                return _np.asarray(a.tolist(), dtype=dtype)
            except (ValueError, TypeError):
                return a
        return _np.asarray(a, dtype=dtype, **k)
    def array(self, x, dtype=None, **k):
        if isinstance(x, SV):
            r = _np.empty((), dtype=object); r[()] = x; return r.view(SA)
        a = _np.array(x)
        if a.dtype == object:
            if _has_sym(a): return a.view(SA)
            try:
                a = _np.array(a.tolist(), dtype=dtype)
            except (ValueError, TypeError):
                return a
        else:
            a = _np.array(a, dtype=dtype, **k)
        # np.array always makes a new array: in symbolic mode float arrays are created as object arrays so that
        # later stores of symbolic values succeed (the values are the same Python floats)
        if symbolic_mode() and a.dtype.kind == 'f' and a.size <= 4096:
            return a.astype(object).view(SA)
        return a
    def _mk(self, f, *a, dtype=None, **k):
        if symbolic_mode() and self._isfloat(dtype):
            r = f(*a, dtype=float, **k).astype(object)
            return r.view(SA)
        return f(*a, dtype=dtype, **k) if dtype is not None else f(*a, **k)
    def eye(self, *a, dtype=None, **k): return self._mk(_np.eye, *a, dtype=dtype, **k)
    def identity(self, *a, dtype=None, **k): return self._mk(_np.identity, *a, dtype=dtype, **k)
    def zeros(self, *a, dtype=None, **k): return self._mk(_np.zeros, *a, dtype=dtype, **k)
    def ones(self, *a, dtype=None, **k): return self._mk(_np.ones, *a, dtype=dtype, **k)
    def empty(self, *a, dtype=None, **k): return self._mk(_np.zeros, *a, dtype=dtype, **k)
    def full(self, shape, fill, dtype=None, **k):
        if is_sym(fill):
            r = _np.empty(shape, dtype=object); r[...] = fill; return r.view(SA)
        return _np.full(shape, fill, dtype=dtype, **k)
    def empty_like(self, a, dtype=None, **k):
        return self.zeros_like(a, dtype=dtype, **k)
    def zeros_like(self, a, dtype=None, **k):
        aa = _np.asarray(a)
        if symbolic_mode() and (isinstance(a, SA) or (self._isfloat(dtype) and aa.dtype.kind in 'fO')):
            z = 0 if (dtype is not None and _np.dtype(dtype).kind in 'iu') else 0.0
            r = _np.empty(_np.shape(a), dtype=object); r[...] = z
            return r.view(SA)
        return _np.zeros_like(aa, dtype=dtype, **k)
    def ones_like(self, a, dtype=None, **k):
        r = self.zeros_like(a, dtype=dtype, **k)
        return r + 1
    def digitize(self, x, bins, right=False):
        if not _is_symarr(x): return _np.digitize(_tofloat(x), bins, right=right)
        if right: raise Abort('digitize right')
        x = _np.asarray(x, dtype=object); out = _np.empty(x.shape, dtype=_np.int64)
        bins = [float(b) for b in bins]
        for k in _np.ndindex(x.shape):
            v = x[k]; lo, hi = 0, len(bins)      # number of edges <= v, by bisection (forks)
            while lo < hi:
                mid = (lo + hi) // 2
                if v >= bins[mid]: lo = mid + 1
                else: hi = mid
            out[k] = lo
        return out
    def arange(self, *a, **k):
        return _np.arange(*[int(v) if isinstance(v, SV) else v for v in a], **k)
    isclose = staticmethod(isclose)
    allclose = staticmethod(allclose)
    cross = staticmethod(cross)
    where = staticmethod(where)
    real_if_close = staticmethod(real_if_close)
    argmin = staticmethod(argmin)
    argmax = staticmethod(argmax)
    sort = staticmethod(sort_)
    sign = staticmethod(lambda x: sign(x) if not isinstance(x, _np.ndarray) else _np.sign(x))
    def abs(self, x): return abs(x)
    absolute = abs
    def max(self, x, *a, **k): return amax(x, *a, **k)
    amax = max
    def min(self, x, *a, **k): return amin(x, *a, **k)
    amin = min
    def all(self, x, axis=None, **k): return aall(x, axis)
    def any(self, x, axis=None, **k): return aany(x, axis)
    def sum(self, x, axis=None, **k): return asum(x, axis=axis, **k)
    def _el(self, x, m, f):
        if isinstance(x, SV): return getattr(x, m)()
        if isinstance(x, _np.ndarray) and x.dtype == object:
            return f(x.view(SA))
        return f(x)
    def cos(self, x): return self._el(x, 'cos', _np.cos)
    def sin(self, x): return self._el(x, 'sin', _np.sin)
    def tan(self, x): return self._el(x, 'tan', _np.tan)
    def arccos(self, x): return self._el(x, 'arccos', _np.arccos)
    def arcsin(self, x): return self._el(x, 'arcsin', _np.arcsin)
    def arctan(self, x): return self._el(x, 'arctan', _np.arctan)
    def log(self, x): return self._el(x, 'log', _np.log)
    def exp(self, x): return self._el(x, 'exp', _np.exp)
    def sqrt(self, x): return self._el(x, 'sqrt', _np.sqrt)
    def floor(self, x): return self._el(x, 'floor', _np.floor)
    def ceil(self, x): return self._el(x, 'ceil', _np.ceil)
    def rint(self, x): return self._el(x, 'rint', _np.rint)
    def round(self, x, *a, **k):
        d = int(a[0]) if a else int(k.get('decimals', 0))
        if isinstance(x, SV): return x.__round__(d)
        if _is_symarr(x): return _wrap(_np.frompyfunc(lambda v: v.__round__(d) if isinstance(v, SV) else float(_np.round(float(v), d)), 1, 1)(_np.asarray(x, dtype=object)))
        if isinstance(x, _np.ndarray) and x.dtype == object: x = _tofloat(x.view(_np.ndarray))
        return _np.round(x, *a, **k)
    around = round
    def isfinite(self, x):
        if _is_symarr(x): return _np.ones(_np.shape(x), dtype=bool)
        return _np.isfinite(x)
    def isnan(self, x):
        if _is_symarr(x): return _np.zeros(_np.shape(x), dtype=bool)
        return _np.isnan(x)
    def issubdtype(self, a, b):
        return _np.issubdtype(a, b)
    def unique(self, a, *args, **k):
        if _is_symarr(a):
            flat = list(_np.asarray(a, dtype=object).flat)
            if all((not isinstance(v, SV)) or v.is_int for v in flat):
                a = _np.array([int(v) for v in flat]).reshape(_np.shape(a))
                return _np.unique(a, *args, **k)
            # symbolic reals: order and equality are decided element by element (forks), stable so that the
            # reported index is the first occurrence as in numpy
            names = ('return_index', 'return_inverse', 'return_counts', 'axis')
            opt = dict(zip(names, args)); opt.update(k)
            if opt.get('return_inverse') or opt.get('return_counts') or opt.get('axis') is not None:
                raise Abort('unique(return_inverse/return_counts/axis) of symbolic reals')
            import functools
            def cmp(i, j):
                if bool(flat[i] < flat[j]): return -1
                if bool(flat[j] < flat[i]): return 1
                return 0
            idx = sorted(range(len(flat)), key=functools.cmp_to_key(cmp))
            keep = []
            for i in idx:
                if keep and cmp(keep[-1], i) == 0: continue
                keep.append(i)
            vals = _np.empty(len(keep), dtype=object)
            for n_, i in enumerate(keep): vals[n_] = flat[i]
            vals = vals.view(SA)
            if opt.get('return_index'): return vals, _np.array(keep, dtype=int)
            return vals
        return _np.unique(a, *args, **k)
    def radians(self, x): return x * (math.pi / 180.0) if _is_symarr(x) else _np.radians(x)
    def degrees(self, x): return x * (180.0 / math.pi) if _is_symarr(x) else _np.degrees(x)
    def trace(self, a, *args, **k): return trace_(a, *args, **k)


npshim = NPShim()


def bind(*modnames):
    """rebind the module global `np` of the target modules to the shim (this process only)"""
    import importlib
    for m in modnames:
        mod = sys.modules.get(m) or importlib.import_module(m)
        if hasattr(mod, 'np'):
            mod.np = npshim


def unbind(*modnames):
    for m in modnames:
        mod = sys.modules.get(m)
        if mod is not None and hasattr(mod, 'np'):
            mod.np = _np


# ---------------------------------------------------------------- predication support
@contextlib.contextmanager
def pred(c):
    cx = ctx()
    g = c if not cx.guards else (cx.guards[-1] & c)
    cx.guards.append(g)
    try: yield
    finally: cx.guards.pop()


def sel(new, old):
    g = ctx().guards[-1]
    return ite(g, new, old)


def issym(c): return isinstance(c, SB)


# ---------------------------------------------------------------- driver
class PathResult:
    __slots__ = ('trace', 'status', 'obligations', 'witness', 'approx', 'notes', 'exc')
    def __init__(self): self.obligations = []; self.witness = None; self.exc = None


def _model_inputs(c, model):
    """values of the declared inputs.  The model comes from a *sliced* query; inputs outside the
    slice are completed from a model of the full path condition (constraint independence: the
    two variable sets are disjoint, so the union is a model of everything)."""
    out = {}
    mv = getattr(c, 'model_vars', None)
    base = None
    for n, z in c.inputs.items():
        try:
            if mv is None or n in mv:
                out[n] = _num(model.eval(z, model_completion=True))
            else:
                if base is None:
                    keepm, keepv = c.model, c.model_vars
                    r = c.check(want_model=True, noslice=True)
                    base = c.model if r == z3.sat else False
                    c.model, c.model_vars = keepm, keepv
                out[n] = _num(base.eval(z, model_completion=True)) if base else None
        except Abort:
            out[n] = None
    return out


def _sample_model(c, tries=40, seed=12345):
    """model of the current path condition found by SAMPLING the declared input ranges and letting the solver validate
    each sample against the full path condition, assumptions and axioms (with every input fixed the query is numeric).
    Used only where z3 could not produce a model itself; a validated sample is a genuine model (it is replayed on
    the real code like any other).  Returns {name: value} or None."""
    import random
    rng = random.Random(seed + len(c.pc))
    names = list(c.inputs)
    if not names: return None
    for _ in range(tries):
        vals = {}
        for n in names:
            z = c.inputs[n]
            lo, hi = c.ranges.get(n, (None, None))
            lo = float(lo) if lo is not None else -10.0; hi = float(hi) if hi is not None else 10.0
            if z.sort() == z3.IntSort():
                vals[n] = rng.randint(int(math.ceil(lo)), int(math.floor(hi)))
            else:
                vals[n] = Fraction(round(rng.uniform(lo, hi) * 4096)) / 4096          # dyadic: exact as binary64
                if vals[n] < lo or vals[n] > hi: vals[n] = Fraction(lo + hi) / 2 if lo <= (lo + hi) / 2 <= hi else Fraction(lo)
        fix = [c.inputs[n] == (z3.IntVal(int(v)) if c.inputs[n].sort() == z3.IntSort() else z3.RealVal(str(v))) for n, v in vals.items()]
        keepm, keepv = c.model, getattr(c, 'model_vars', None)
        try:
            r = c.check(*fix, want_model=True, noslice=True, timeout_ms=min(c.timeout_ms, 3000))
        finally:
            c.model, c.model_vars = keepm, keepv
        if r == z3.sat:
            c.notes.append('model of the path condition found by validated sampling')
            return {n: (int(v) if c.inputs[n].sort() == z3.IntSort() else float(v)) for n, v in vals.items()}
    return None


def explore(fn, max_paths=2000, timeout_ms=10000, linearize=True, maxcases=8, allowed_exc=(),
            budget_s=None, witness_paths=1, verbose=False):
    """run fn() on every feasible path; fn returns a list of (name, SB/bool) obligations.
    Returns (list of PathResult, Stats, remaining work-list length)."""
    work = [[]]
    results = []
    stats = Stats()
    t0 = time.time()
    nwit = 0
    while work and stats.paths < max_paths and (budget_s is None or time.time() - t0 < budget_s):
        prefix = work.pop()
        c = Ctx(timeout_ms, linearize, maxcases); c.prefix = prefix; Ctx.cur = c
        pr = PathResult()
        try:
            out = fn()
            status = 'ok'
        except Abort as e:
            out = None; status = f'abort:{e}'; stats.aborted += 1
        except allowed_exc as e:
            out = None; status = f'refused:{type(e).__name__}'
        except Exception as e:
            import traceback
            tb = traceback.extract_tb(e.__traceback__)
            where_ = next((f'{f.filename}:{f.lineno}' for f in reversed(tb) if '/repo/' in f.filename), '')
            inner = _blame(tb)
            if _in_repo(inner):
                out = None; status = f'exc:{type(e).__name__}:{str(e)[:200]} @{where_}'
                pr.exc = e
            else:       # raised by harness / engine code, not by the code under test
                out = None; status = f'harness-exc:{type(e).__name__}:{str(e)[:200]} @{os.path.basename(inner)}:{tb[-1].lineno if tb else 0}'
                stats.aborted += 1
        if c.aborted and not status.startswith('abort'):
            status = f'abort:{c.aborted} (swallowed)'; out = None; stats.aborted += 1
        if status.startswith('exc:'):
            # unexpected exception on a feasible path: obtain a witness for replay
            r = c.check(want_model=True, noslice=True)
            m = _model_inputs(c, c.model) if r == z3.sat else _sample_model(c)
            pr.obligations.append(('no_unexpected_exception', 'sat' if (r == z3.sat or m is not None) else 'unknown', m))
        if status == 'ok' and out:
            for name, p in out:
                if isinstance(p, SB):
                    r = c.check(z3.Not(p.t))
                    m = None
                    if r == z3.sat and c.model is not None:
                        m = _model_inputs(c, c.model)
                    pr.obligations.append((name, str(r), m))
                elif p:
                    pr.obligations.append((name, 'unsat-const', None))        # folded to True by term simplification / concrete on this path: no solver query
                else:
                    # concretely false on this path: any model of the path condition is a counterexample
                    r = c.check(want_model=True, noslice=True)
                    pr.obligations.append((name, 'sat-concrete', _model_inputs(c, c.model) if r == z3.sat else _sample_model(c)))
            if nwit < witness_paths:
                # prefer a GENERIC witness: real inputs non-zero and pairwise distinct in magnitude (a model full of zeros
                # and coinciding values hides most errors in the concrete replay); fall back to any model
                reals = [z for z in c.inputs.values() if z.sort() == z3.RealSort()][:40]
                generic = [z != 0 for z in reals] + [z3.And(a != b, a != -b) for i, a in enumerate(reals) for b in reals[i + 1:i + 4]]
                r = c.check(*generic, want_model=True, noslice=True, timeout_ms=min(c.timeout_ms, 5000)) if generic else z3.unknown
                if r != z3.sat:
                    r = c.check(want_model=True, noslice=True)
                if r == z3.sat:
                    pr.witness = _model_inputs(c, c.model); nwit += 1
                else:
                    w = _sample_model(c)
                    if w is not None: pr.witness = w; nwit += 1
        work.extend(c.worklist)
        stats.paths += 1
        stats.add(c.stats)
        pr.trace = list(c.trace); pr.status = status; pr.approx = c.approx; pr.notes = list(c.notes)
        results.append(pr)
        if verbose: print(status, c.trace, [(n, r) for n, r, _ in pr.obligations], flush=True)
    Ctx.cur = None
    return results, stats, len(work)


def _blame(tb):
    """file of the innermost frame that belongs either to the code under test or to the harness (library and
    engine frames in between are skipped): an exception raised by a library called FROM the repository is the
    repository's exception"""
    for f in reversed(tb):
        fn = f.filename
        if _in_repo(fn) or '/verif/props/' in fn or '/verif/vlib/' in fn:
            return fn
    return tb[-1].filename if tb else ''


def _in_repo(filename):
    return '/repo/' in filename or filename.startswith(os.environ.get('VERIF_REPO', '/repo')) or '<translated>' in filename


def run_concrete(fn, values, allowed_exc=()):
    """replay: run the same harness on concrete float inputs against the real code"""
    c = Ctx(); c.concrete = dict(values); Ctx.cur = c
    try:
        out = fn()
        res = [(n, bool(p)) for n, p in (out or [])]
        status = 'ok'
    except Abort as e:
        res = []; status = f'abort:{e}'
    except allowed_exc as e:
        res = []; status = f'refused:{type(e).__name__}'
    except Exception as e:
        import traceback
        tb = traceback.extract_tb(e.__traceback__)
        kind = 'exc' if _in_repo(_blame(tb)) else 'harness-exc'
        res = []; status = f'{kind}:{type(e).__name__}:{str(e)[:200]}'
    finally:
        Ctx.cur = None
    return status, res
