# symx.kernels -- the five Cython kernels of atomman, regenerated from /repo's current .pyx
# text on every run, in two forms:
#   'sym'  : translated to Python (pyx2py) and executed on symbolic values
#   'conc' : compiled out-of-tree with the installed Cython into a scratch directory
#            (the in-tree .so may be stale after an edit and is never relied upon)
import os, sys, subprocess, tempfile, types, importlib, shutil, textwrap
from . import pyx2py
from . import core as sx

REPO = os.environ.get('VERIF_REPO', '/repo')
SRC = {
    'dmag': 'atomman/core/dmag.pyx', 'dvect': 'atomman/core/dvect.pyx', 'nlist': 'atomman/core/nlist.pyx',
    'slip_vector': 'atomman/defect/slip_vector.pyx', 'Strain': 'atomman/defect/Strain.pyx',
}
DEPS = {'nlist': ['dmag'], 'dvect': [], 'dmag': [], 'slip_vector': ['dvect'], 'Strain': []}
EXTDIR = None
_orig = {}      # kernel name -> original function objects bound in atomman
_cache = {}


def closure(names):
    out = []
    def add(n):
        for d in DEPS.get(n, []): add(d)
        if n not in out: out.append(n)
    for n in names: add(n)
    return out


def build(names):
    """compile the named kernels (and their cimport dependencies) from /repo's current source"""
    names = closure(names)
    d = tempfile.mkdtemp(prefix='verif_ext_')
    for n in names:
        rel = SRC[n]
        sub = os.path.join(d, 'xk', os.path.basename(os.path.dirname(rel)))
        os.makedirs(sub, exist_ok=True)
        for p in (os.path.join(d, 'xk', '__init__.py'), os.path.join(sub, '__init__.py')):
            if not os.path.exists(p): open(p, 'w').close()
        shutil.copy(os.path.join(REPO, rel), sub)
        # plain Python imports of the parent package refer to the real atomman (only the kernels live in the scratch package)
        import re as _re
        p_ = os.path.join(sub, os.path.basename(rel))
        txt = open(p_).read()
        txt = _re.sub(r'^from \.\. import ', 'from atomman import ', txt, flags=_re.M)
        txt = _re.sub(r'^from \.\.(\w+) import ', r'from atomman.\1 import ', txt, flags=_re.M)
        txt = _re.sub(r'^from \. import ', 'from atomman.' + os.path.basename(os.path.dirname(rel)) + ' import ', txt, flags=_re.M)
        open(p_, 'w').write(txt)
        pxd = os.path.join(REPO, rel[:-4] + '.pxd')
        if os.path.exists(pxd): shutil.copy(pxd, sub)
    with open(os.path.join(d, 'setup.py'), 'w') as f:
        f.write(textwrap.dedent('''
            import glob, numpy
            from setuptools import setup
            from setuptools.extension import Extension
            from Cython.Build import cythonize
            ext = [Extension("*", [p]) for p in glob.glob("xk/*/*.pyx")]
            setup(name="xk", ext_modules=cythonize(ext, nthreads=8, quiet=True, language_level=3), include_dirs=[numpy.get_include()])
        '''))
    env = dict(os.environ, CFLAGS='-O1 -w')
    r = subprocess.run([sys.executable, 'setup.py', '-q', 'build_ext', '--inplace', '-j', '8'], cwd=d, env=env,
                       capture_output=True, text=True)
    if r.returncode != 0:
        shutil.rmtree(d, ignore_errors=True)
        raise RuntimeError('extension build failed:\n' + r.stdout[-3000:] + r.stderr[-3000:])
    return d


def load_conc(name):
    """the freshly compiled extension module"""
    key = ('conc', name)
    if key not in _cache:
        if EXTDIR is None: raise RuntimeError('extensions were not built for this check')
        if EXTDIR not in sys.path: sys.path.insert(0, EXTDIR)
        sub = os.path.basename(os.path.dirname(SRC[name]))
        _cache[key] = importlib.import_module(f'xk.{sub}.{name}')
    return _cache[key]


def translate(name):
    src = open(os.path.join(REPO, SRC[name])).read()
    py = pyx2py.if_convert(pyx2py.pyx_to_py(src))
    py = py.replace('from __future__ import absolute_import, print_function, division, unicode_literals', '')
    return py


def load_sym(name, real_numpy=False):
    """the kernel translated to Python; with the numpy shim (symbolic) or real numpy (validation)"""
    key = ('sym', name, real_numpy)
    if key in _cache: return _cache[key]
    py = translate(name)
    m = types.ModuleType(f'{name}_sym')
    m.__dict__.update(dict(__pred__=sx.pred, __sel__=sx.sel, __issym__=sx.issym))
    # cimported C functions come from the translated dependency
    import re
    for dep in DEPS[name]:
        dm = load_sym(dep, real_numpy)
        pat = r'^from\s+\.+\w*\.?' + dep + r'\s+import\s+([\w, ]+?)\s*(#.*)?$'
        for mm in re.finditer(pat, py, flags=re.M):
            for fn in mm.group(1).split(','):
                m.__dict__[fn.strip()] = getattr(dm, fn.strip())
        py = re.sub(pat, 'pass', py, flags=re.M)
    py = re.sub(r'^from \.\.?\S* import .*$', lambda mo: _absimport(name, mo.group(0)), py, flags=re.M)
    # C math library (cimported in the .pyx): the same functions on Python floats, symbolic-aware
    mm = re.search(r'^from libc\.math import (.*?)(#.*)?$', py, flags=re.M)
    if mm:
        for fn in mm.group(1).split(','):
            m.__dict__[fn.strip()] = _LIBC_MATH[fn.strip()]
        py = re.sub(r'^from libc\.math import .*$', 'pass', py, flags=re.M)
    exec(compile(py, os.path.join(REPO, SRC[name]) + '<translated>', 'exec'), m.__dict__)
    if not real_numpy:
        m.np = sx.npshim
    _cache[key] = m
    return m


def _absimport(name, line):
    pkg = 'atomman.' + os.path.basename(os.path.dirname(SRC[name]))
    if line.startswith('from .. '): return line.replace('from .. ', 'from atomman ', 1)
    if line.startswith('from ..'): return line.replace('from ..', 'from atomman.', 1)
    if line.startswith('from . '): return line.replace('from . ', f'from {pkg} ', 1)
    return line.replace('from .', f'from {pkg}.', 1)


import math as _math
def _lm(name, f):
    def g(x):
        if sx.is_sym(x): return getattr(x, name)() if name != 'fabs' else abs(x)
        return f(x)
    return g
_LIBC_MATH = dict(sqrt=_lm('sqrt', _math.sqrt), fabs=_lm('fabs', _math.fabs), cos=_lm('cos', _math.cos), sin=_lm('sin', _math.sin),
                  acos=_lm('arccos', _math.acos), pi=_math.pi)


FUNCS = {'dmag': ['dmag'], 'dvect': ['dvect'], 'nlist': ['nlist'], 'slip_vector': ['slip_vector'], 'Strain': ['Strain']}


def _targets():
    return [m for n, m in list(sys.modules.items()) if n.startswith('atomman') and m is not None]


def activate(mode, names):
    """rebind every reference to the kernels' public functions inside loaded atomman modules"""
    import atomman  # noqa
    for n in closure(names):
        for fn in FUNCS[n]:
            if (n, fn) not in _orig:
                modname = 'atomman.' + SRC[n][len('atomman/'):-4].replace('/', '.')
                real = sys.modules.get(modname) or importlib.import_module(modname)
                _orig[(n, fn)] = [getattr(real, fn)]
            new = getattr(load_sym(n) if mode == 'sym' else load_conc(n), fn)
            olds = _orig[(n, fn)]
            for mod in _targets():
                for k, v in list(vars(mod).items()):
                    if any(v is o for o in olds):
                        setattr(mod, k, new)
            olds.append(new)
