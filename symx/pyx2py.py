# Cython-lite -> Python source transformer (prototype): strips cdef/ctypedef typing so the .pyx
# kernels can be executed by the symbolic interpreter.  Regenerated from /repo source each run.
import re, ast, textwrap
CTYPES = r'(?:const\s+)?(?:unsigned\s+)?(?:double|float|int|long long|long|bint|Py_ssize_t|object)'
def strip_sig(args):
    out=[]
    depth=0; cur=''
    for ch in args:
        if ch in '([': depth+=1
        if ch in ')]': depth-=1
        if ch==',' and depth==0: out.append(cur); cur=''
        else: cur+=ch
    if cur.strip(): out.append(cur)
    res=[]
    for a in out:
        a=a.strip()
        m=re.match(rf'^{CTYPES}\s*(\[[^\]]*\])?\s*(\w+)(\s*=.*)?$', a)
        if m: a=m.group(2)+(m.group(3) or '')
        res.append(a)
    return ', '.join(res)
def pyx_to_py(src):
    lines=src.split('\n'); out=[]
    i=0
    while i < len(lines):
        ln=lines[i]
        s=ln.strip()
        ind=ln[:len(ln)-len(ln.lstrip())]
        if s.startswith('@cython.') or s=='import cython' or s.startswith('cimport ') :
            i+=1; continue
        m=re.match(r'^from\s+(\S+)\s+cimport\s+(.*)$', s)
        if m:
            out.append(f'{ind}from {m.group(1)} import {m.group(2)}  # cimport'); i+=1; continue
        m=re.match(r'^(cdef|cpdef|def)\s+(?:\w+\s+)?(\w+)\s*\((.*)$', s)
        if m and (m.group(1)!='def' or True) and not s.startswith('cdef class'):
            # gather full signature up to '):'
            sig=m.group(3); j=i
            while not re.search(r'\)\s*:\s*$', sig):
                j+=1; sig+=' '+lines[j].strip()
            sig=re.sub(r'\)\s*:\s*$','',sig)
            if m.group(1)=='def' and not re.search(CTYPES+r'[\s\[]', sig):
                out.append(ln); i+=1; continue
            out.append(f'{ind}def {m.group(2)}({strip_sig(sig)}):'); i=j+1; continue
        m=re.match(rf'^cdef\s+{CTYPES}\s*(\[[^\]]*\])?\s*(.*)$', s)
        if m:
            rest=m.group(2).rstrip(',').strip()
            if '=' in rest and not re.match(r'^[\w\s,]+$', rest):
                out.append(f'{ind}{rest}')
            else:
                out.append(f'{ind}pass  # cdef {rest}')
            i+=1; continue
        out.append(ln); i+=1
    return '\n'.join(out)

class IfConv(ast.NodeTransformer):
    """if-conversion: `if c: <assignments/loops>` -> predicated execution when c is symbolic"""
    def __init__(self): self.n=0
    def convertible(self, body):
        for st in body:
            if isinstance(st,ast.Pass): continue
            if isinstance(st,ast.Assign) and all(isinstance(t,ast.Subscript) for t in st.targets): continue
            if isinstance(st,ast.AugAssign) and isinstance(st.target,ast.Subscript): continue
            if isinstance(st,ast.For) and not st.orelse and self.convertible(st.body): continue
            if isinstance(st,ast.If) and self.convertible(st.body) and self.convertible(st.orelse): continue
            return False
        return True
    def pred_body(self, body):
        out=[]
        for st in body:
            if isinstance(st,ast.Assign) and len(st.targets)==1 and isinstance(st.targets[0],ast.Name):
                n=st.targets[0].id
                out.append(ast.Assign(targets=st.targets, value=ast.Call(func=ast.Name('__sel__',ast.Load()),
                    args=[st.value, ast.Name(n,ast.Load())], keywords=[])))
            elif isinstance(st,ast.AugAssign) and isinstance(st.target,ast.Name):
                n=st.target.id
                out.append(ast.Assign(targets=[ast.Name(n,ast.Store())], value=ast.Call(func=ast.Name('__sel__',ast.Load()),
                    args=[ast.BinOp(ast.Name(n,ast.Load()), st.op, st.value), ast.Name(n,ast.Load())], keywords=[])))
            elif isinstance(st,ast.For):
                out.append(ast.For(target=st.target, iter=st.iter, body=self.pred_body(st.body), orelse=[]))
            else:
                out.append(st)   # subscript stores are predicated by the array class
        return out
    def visit_If(self, node):
        self.generic_visit(node)
        if not (self.convertible(node.body) and self.convertible(node.orelse)): return node
        self.n+=1; c=f'__c{self.n}'
        test=ast.Assign(targets=[ast.Name(c,ast.Store())], value=node.test)
        conc=ast.If(test=ast.Name(c,ast.Load()), body=node.body, orelse=node.orelse)
        def guarded(cond_expr, body):
            return ast.With(items=[ast.withitem(context_expr=ast.Call(func=ast.Name('__pred__',ast.Load()),args=[cond_expr],keywords=[]))], body=self.pred_body(body))
        sym=[guarded(ast.Name(c,ast.Load()), node.body)]
        if node.orelse:
            sym.append(guarded(ast.UnaryOp(ast.Invert(), ast.Name(c,ast.Load())), node.orelse))
        sw=ast.If(test=ast.Call(func=ast.Name('__issym__',ast.Load()),args=[ast.Name(c,ast.Load())],keywords=[]), body=sym, orelse=[conc])
        return [test, sw]
def if_convert(src):
    t=ast.parse(src); t=IfConv().visit(t); ast.fix_missing_locations(t); return ast.unparse(t)
if __name__=='__main__':
    import sys
    py=pyx_to_py(open(sys.argv[1]).read())
    print(if_convert(py))
