# symx.dual -- forward-mode automatic differentiation over symbolic scalars (values and partial derivatives are SV/float).
# Differentiation rules used (trusted lemma L3): sum/product/quotient/chain rule, d log t = dt/t, d arctan t = dt/(1+t^2).
import numpy as _np
from . import core as sx


class Dual:
    _symx_dual = True
    __slots__ = ('v', 'd')
    def __init__(self, v, d):
        self.v = v; self.d = tuple(d)
    @staticmethod
    def lift(x, n):
        return x if isinstance(x, Dual) else Dual(x, (0.0,) * n)
    def _n(self): return len(self.d)
    def __add__(s, o):
        if isinstance(o, _np.ndarray): return NotImplemented
        o = Dual.lift(o, s._n()); return Dual(s.v + o.v, [a + b for a, b in zip(s.d, o.d)])
    __radd__ = __add__
    def __sub__(s, o):
        if isinstance(o, _np.ndarray): return NotImplemented
        o = Dual.lift(o, s._n()); return Dual(s.v - o.v, [a - b for a, b in zip(s.d, o.d)])
    def __rsub__(s, o):
        if isinstance(o, _np.ndarray): return NotImplemented
        o = Dual.lift(o, s._n()); return Dual(o.v - s.v, [b - a for a, b in zip(s.d, o.d)])
    def __mul__(s, o):
        if isinstance(o, _np.ndarray): return NotImplemented
        o = Dual.lift(o, s._n()); return Dual(s.v * o.v, [a * o.v + s.v * b for a, b in zip(s.d, o.d)])
    __rmul__ = __mul__
    def __truediv__(s, o):
        if isinstance(o, _np.ndarray): return NotImplemented
        o = Dual.lift(o, s._n()); q = s.v / o.v
        return Dual(q, [(a - q * b) / o.v for a, b in zip(s.d, o.d)])
    def __rtruediv__(s, o):
        if isinstance(o, _np.ndarray): return NotImplemented
        return Dual.lift(o, s._n()) / s
    def __neg__(s): return Dual(-s.v, [-a for a in s.d])
    def __pos__(s): return s
    def __pow__(s, e):
        if not float(e).is_integer() or e < 0: raise sx.Abort('Dual power')
        r = Dual(1.0, (0.0,) * s._n())
        for _ in range(int(e)): r = r * s
        return r
    def log(s): return Dual(_log(s.v), [a / s.v for a in s.d])
    def arctan(s): return Dual(_atan(s.v), [a / (1 + s.v * s.v) for a in s.d])
    def conjugate(s): return s
    def __lt__(s, o): return s.v < (o.v if isinstance(o, Dual) else o)
    def __le__(s, o): return s.v <= (o.v if isinstance(o, Dual) else o)
    def __gt__(s, o): return s.v > (o.v if isinstance(o, Dual) else o)
    def __ge__(s, o): return s.v >= (o.v if isinstance(o, Dual) else o)
    def __eq__(s, o):
        if isinstance(o, _np.ndarray): return NotImplemented
        return s.v == (o.v if isinstance(o, Dual) else o)
    def __ne__(s, o):
        if isinstance(o, _np.ndarray): return NotImplemented
        return s.v != (o.v if isinstance(o, Dual) else o)
    __hash__ = None
    def __float__(s): raise sx.Abort('float() of a dual number')
    def __repr__(s): return f'Dual({s.v}, {s.d})'
    def __deepcopy__(s, memo): return s
    def copy(s): return s
    @property
    def shape(s): return ()
    @property
    def ndim(s): return 0


def _log(v):
    import math
    return v.log() if isinstance(v, sx.SV) else math.log(v)
def _atan(v):
    import math
    return v.arctan() if isinstance(v, sx.SV) else math.atan(v)


def seed(values):
    """independent variables: values[i] with unit derivative in slot i"""
    n = len(values)
    return [Dual(v, [1.0 if i == j else 0.0 for j in range(n)]) for i, v in enumerate(values)]
