#!/bin/bash
# confirm a seeded change in its scratch worktree: demo passes clean, fails mutated; test-suite still passes mutated
# usage: confirm_mut.sh <worktree> <patch> <demo> [rebuild]
WT=$1; P=$2; D=$3
cd $WT || exit 9
git checkout -q -- . ; 
/venv/bin/python $D >/tmp/demo_clean.out 2>&1; c=$?
git apply $P || { echo "patch does not apply"; exit 9; }
[ -n "$4" ] && /venv/bin/python setup.py -q build_ext --inplace >/dev/null 2>&1
/venv/bin/python $D >/tmp/demo_mut.out 2>&1; m=$?
/venv/bin/python -m pytest -q -p no:cacheprovider --timeout=900 tests 2>&1 | tail -1 > /tmp/tests_mut.out
git checkout -q -- .
[ -n "$4" ] && /venv/bin/python setup.py -q build_ext --inplace >/dev/null 2>&1
echo "demo clean exit=$c mutated exit=$m tests: $(cat /tmp/tests_mut.out)"
