#!/usr/bin/env python3
# save a confirmed seeded change: save_seed.py <ID> <k> <caught:yes|no|later> "<caught by>" 
import sys, os, json, shutil
ID, k, caught, by = sys.argv[1:5]
wt = f'/tmp/wt_{ID}' if len(sys.argv) < 6 else sys.argv[5]
d = f'/verif/seeded/{ID}_m{k}' if len(sys.argv) < 7 else f'/verif/seeded/{sys.argv[6]}'
os.makedirs(d, exist_ok=True)
shutil.copy(f'{wt}/out/m{k}.diff', f'{d}/patch.diff'); shutil.copy(f'{wt}/out/m{k}_demo.py', f'{d}/demo.py')
needs = open(f'{wt}/out/m{k}.txt').read()
json.dump(dict(property=ID, breaks=needs, confirmed='demo exits 0 on the unchanged tree and 1 with the patch; the whole test-suite still passes with the patch applied (86 passed, 9 skipped) (tools/confirm_mut.sh)',
               ran=f'tools/trymut.sh {ID} seeded/{os.path.basename(d)}/patch.diff quick', detected=caught, detected_by=by), open(f'{d}/meta.json', 'w'), indent=1)
print('saved', d)
