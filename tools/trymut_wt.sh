#!/bin/bash
# run a check against a seeded change applied in a scratch WORKTREE (leaves /repo untouched): trymut_wt.sh <ID> <worktree> <patch> [tier]
ID=$1; WT=$2; P=$3; T=${4:-quick}
cd $WT && git checkout -q -- . && git apply $P || exit 9
cd /verif && VERIF_REPO=$WT PYTHONPATH=$WT ./check $ID --tier $T --no-evidence 2>&1 | grep -v "^  case=" | tail -4 | cut -c1-300
cd $WT && git checkout -q -- .
