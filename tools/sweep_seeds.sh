#!/bin/bash
# re-apply every seeded change to the CURRENT /repo tree, run the quick check of its property, undo; summary in seeded/SWEEP.txt
# usage: tools/sweep_seeds.sh [ID-prefix]
cd /verif
OUT=seeded/SWEEP.txt; TMP=$(mktemp)
echo "# sweep of seeded changes against /repo $(git -C /repo rev-parse --short HEAD), /verif $(git rev-parse --short HEAD), $(date -u +%F)" > $TMP
for d in seeded/${1:-}*/; do
  name=$(basename $d); id=${name%%_*}
  [ -f $d/patch.diff ] || continue
  if ! git -C /repo apply --check $PWD/$d/patch.diff 2>/dev/null; then echo "$name: patch no longer applies to the current tree (superseded by a fix: commit)" >> $TMP; continue; fi
  git -C /repo apply $PWD/$d/patch.diff
  out=$(./check $id --tier quick --no-evidence 2>&1); rc=$?
  git -C /repo checkout -q -- .
  nv=$(echo "$out" | grep -c '^VIOLATION')
  echo "$name: exit=$rc violations=$nv $( [ $rc = 1 ] && echo DETECTED || echo MISSED ) | $(echo "$out" | grep 'tier=' | cut -c1-160)" >> $TMP
done
[ -z "$(git -C /repo status --short)" ] || echo "WARNING: /repo not clean after sweep" >> $TMP
mv $TMP $OUT; cat $OUT
