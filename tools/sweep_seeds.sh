#!/bin/bash
# re-apply every seeded change to a scratch worktree of the CURRENT /repo HEAD (so /repo itself stays untouched), run the quick
# check of its property against that worktree, undo; summary in seeded/SWEEP.txt.   usage: tools/sweep_seeds.sh [ID-prefix]
cd /verif
WT=$(mktemp -d /tmp/sweepwt.XXXXXX); rmdir $WT
git -C /repo worktree add -q --detach $WT HEAD || exit 9
trap 'git -C /repo worktree remove --force $WT 2>/dev/null; git -C /repo worktree prune' EXIT
# the compiled extensions are untracked build products: copy them so that the worktree's atomman imports (the checks themselves
# analyse the re-translated .pyx and replay on their own out-of-tree build)
(cd /repo && for f in $(find atomman -name '*.so'); do cp $f $WT/$f; done)
OUT=seeded/SWEEP${1:+_$1}.txt; TMP=$(mktemp)
echo "# sweep of seeded changes against /repo $(git -C /repo rev-parse --short HEAD), /verif $(git rev-parse --short HEAD), $(date -u +%F)" > $TMP
for d in seeded/${1:-}*/; do
  name=$(basename $d); id=${name%%_*}
  [ -f $d/patch.diff ] || continue
  git -C $WT checkout -q -- .
  if ! git -C $WT apply --check $PWD/$d/patch.diff 2>/dev/null; then echo "$name: patch no longer applies to the current tree (the code it changes was repaired by a later fix: commit)" >> $TMP; continue; fi
  git -C $WT apply $PWD/$d/patch.diff
  out=$(VERIF_REPO=$WT PYTHONPATH=$WT ./check $id --tier quick --no-evidence 2>&1); rc=$?
  nv=$(echo "$out" | grep -c '^VIOLATION')
  echo "$name: exit=$rc violations=$nv $( [ $rc = 1 ] && [ $nv -gt 0 ] && echo DETECTED || ( [ $rc = 0 ] && echo MISSED || echo CHECK-ERROR ) ) | $(echo "$out" | grep 'tier=' | cut -c1-170)" >> $TMP
done
mv $TMP $OUT; tail -n +1 $OUT | cut -c1-120
