#!/bin/bash
# run selected cases of a check against a seeded change applied in a scratch worktree: trycases_wt.sh <ID> <worktree> <patch> <case> [<case>...]
ID=$1; WT=$2; P=$3; shift 3
cd $WT && git checkout -q -- . && git apply $P || exit 9
for c in "$@"; do (cd /verif && VERIF_REPO=$WT PYTHONPATH=$WT ./check $ID --only $c --no-evidence 2>&1 | grep -E "^VIOLATION|tier=|HARNESS" | cut -c1-260); done
cd $WT && git checkout -q -- .
