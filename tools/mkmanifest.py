#!/usr/bin/env python3
# regenerates /verif/MANIFEST.json from the table below (kept valid at all times)
import json, os
V = os.path.dirname(os.path.dirname(os.path.abspath(__file__)))
TECH = 'symbolic execution of the real NumPy/Cython code (symx) + z3 (slicing, monomial abstraction to LRA, nlsat); sat models replayed on the real float64 code'
CLAIMED = {
 'C20': dict(text='Solver verdict over ALL real A (n x n, n<=4 quick / 6 thorough), y, h for euler and rungekutta against the Taylor polynomial of exp(hA); over all polynomials of degree<=4 with symbolic coefficients for central_difference (error is exactly shift^2 f\'\'\'/6); captured rate/climbrate closures of ISMPath.step against the climbing-force definition. Bounded (dimension, degree) but unsampled inside the bound.',
             note='Real arithmetic, not IEEE-754. Relaxation dynamics (SciPy spline re-spacing, convergence to minima/saddle) are outside the claim.', ref='§5 C20'),
}
CLAIMED['C09'] = dict(text='Solver verdict with the five base units as arbitrary positive reals: every unit-table entry is a symbolic monomial; parse() agrees with an independent precedence-climbing evaluator on every generated expression (depth<=2 exhaustive, stride through depth 3; thorough depth 3), set/get round trips, conversion factors equal under two independent working-unit systems, chosen working units equal 1 after reset_units(**choice) for all consistent choices (2-3 names per category), LAMMPS mechanical table entries satisfy the dimensional scaling law.',
             note='Base-unit contract of numericalunits.reset_units stubbed as arbitrary positive reals; real arithmetic with relative tolerance 1e-9 for the clause "to rounding"; exponent table of the oracle measured from concrete numericalunits runs.', ref='§5 C09')
CLAIMED['C01'] = dict(text='Solver verdict over all LAMMPS-form cells (lengths in [1,100], tilts 0 or >=1e-3, any origin), all (a,b,c,cosines) with a realisability margin, and all right-handed general 3x3 cells with det>=1: every pair of parameter sets rebuilds the same vectors/origin, reported lengths/angles/volume are those of the vectors, cartesian<->relative are mutual inverses for shapes (3,),(2,3),(2,2,3) list and array input, reciprocal vectors are dual also after re-setting the cell (cache invalidation), inside() <=> relative coordinates in [0,1]/(0,1), Plane.below/above, the seven family constructors.',
             note='Real arithmetic; dead-zone assumption for the near-zero threshold; lemma L1 cos(arccos x)=x; a few rational-function obligations may stay unknown within the quick time-out and are reported as inconclusive.', ref='§5 C01')
CLAIMED['C02'] = dict(text='dvect.pyx/dmag.pyx re-translated from source and executed symbolically: for ALL LAMMPS-form cells, any origin, any two points and all 8 periodicity settings the result differs from the direct separation by a lattice vector with shifts in {-1,0,1} along periodic directions only, is not longer than any of the (up to 27) candidates, dmag^2 = |dvect|^2; broadcast shapes; System.dvect/dmag dispatch; displacement() atom by atom under the chosen reference cell; nearest-image clause for orthogonal cells through a solver-proved finite search radius. Translator validated against the freshly compiled extension each run.',
             note='Real arithmetic (ties in mag_test < mag_d are float matters); dead-zone assumption on tilts; tilted-cell half-width nearest-image clause not decided.', ref='§5 C02')
CLAIMED['C11'] = dict(text='Solver verdict over all 21-constant stiffness matrices (entries 0 or 1e-3..1000): the 81-entry index map and its setters, Cij9, compliance contraction C:S = symmetric identity and the Sijkl weight split (6x6 inverse as contract stub), transform() equal to the rank-4 rotation law for EVERY proper orthonormal axes matrix (9 reals with the orthonormality relations) on the independent entries, the 24 cubic rotations incl. inverse and sampled compositions, z-rotations by any angle (identity/inverse/composition, strain-energy invariance, hexagonal invariance), all crystal-system constructors against an independently coded Nye table incl. invariance under their symmetry generators, all 15 isotropic modulus pairs over (lambda, mu), Voigt/Reuss/Hill moduli, normalized_as idempotence.',
             note='Real arithmetic; np.linalg.inv(6x6) is a contract stub (X.C = C.X = I, symmetric, functional, inverse-of-inverse); dead-zone assumption for near-zero thresholds; transform threshold handled by a threshold lemma.', ref='§5 C11')
CLAIMED['C03'] = dict(text='nlist.pyx re-translated from source and executed on symbolic atom coordinates (2 atoms quick, 3 thorough) in a table of concrete (cell, cutoff, pbc) entries: bin indices, ghost membership and the cutoff comparison fork, so each explored path is a whole region of configuration space on which the list is decided against the symbolic C02 periodic distance (listed <=> distance < cutoff), plus symmetry/order/coord and dump->load. Sub-boxes whose work-list is exhausted are decided completely; the rest is reported as unexplored. Translator validated against the freshly compiled extension (random systems, storage sizes, 45 atoms per bin).',
             note='Concrete cells and cutoffs from a table; N<=3; real arithmetic at bin edges; regions left unexplored within the time budget are counted in the evidence (worklist_remaining).', ref='§5 C03')
CLAIMED['C16'] = dict(text='Solver verdict: 3<->4 index maps are mutually inverse for ALL real indices (leading shapes (), (2,), (2,2); list and array); [uvtw] equals u a1+v a2+t a3+w c in every hexagonal cell; the Cartesian normal of every integer plane with |index|<=2 (quick; <=4 thorough) is the unit vector along h a*+k b*+l c* with the right sense on EVERY LAMMPS-form cell (6 symbolic parameters), 4-index planes on every hexagonal cell; centring maps mutually inverse on real indices for 8 settings; family constructors with generic symbolic parameters are identified as their family (through arccos anchor axioms). reduce_indices, fromstring and the centring determinants are exhaustive concrete enumerations inside the bound.',
             note='Real arithmetic; arccos facts L1 trusted; family identification obligations may remain inconclusive (approximate paths) for rhombohedral/triclinic within the quick time-out; enumeration parts are not solver verdicts and are labelled so in the evidence.', ref='§5 C16')
NA = {}
props = [json.loads(l) for l in open(os.path.join(V, 'properties.jsonl'))]
checks = []; na = []
for p in props:
    i = p['id']
    if i in CLAIMED:
        c = CLAIMED[i]
        checks.append(dict(property_id=i, quick_cmd=f'./check {i} --tier quick', thorough_cmd=f'./check {i} --tier thorough',
                           evidence_file=f'evidence/{i}.json', replay_cmd_template=f'./check {i} --tier thorough --replay {{path}}',
                           engine='symx', level_claimed=dict(category='other', text=c['text'], design_ref=c['ref']),
                           level_note=c['note'], technique=c.get('technique', TECH)))
    else:
        na.append(dict(property_id=i, reason=NA.get(i, 'harness not built yet in this round (see DESIGN.md §5 for the planned solver-based design); not claimed')))
m = dict(version=1, setup_cmd='./setup.sh',
         hooks=dict(guard='ATOMMAN_VERIF', enable='none needed: the numpy shim is bound from outside the repository by the checks (no source hooks)',
                    baseline_off_cmd='cd /repo && /venv/bin/python -m pytest -ra -q -p no:cacheprovider --timeout=900 --continue-on-collection-errors',
                    source_commits=[], add_only=True),
         engines=[dict(name='symx', path='symx/', serves_properties=sorted(CLAIMED), kind_free_text='symbolic executor for NumPy-style Python over z3; Cython kernels re-translated from source each run')],
         checks=checks, not_applicable=na,
         notes='Exit codes: 0 held on everything decided; 1 + VIOLATION line = replay-confirmed violation; 3 = harness error (no VIOLATION line). known_findings.json lists genuine defects (known / fixed).')
json.dump(m, open(os.path.join(V, 'MANIFEST.json'), 'w'), indent=1)
print('claimed', sorted(CLAIMED), 'na', len(na))
