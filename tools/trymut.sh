#!/bin/bash
# run a check against a seeded change: apply to /repo, run, undo.  usage: trymut.sh <ID> <patch> [tier] [extra args]
ID=$1; P=$2; T=${3:-quick}; shift 3
cd /repo && git apply $P || exit 9
cd /verif && ./check $ID --tier $T --no-evidence "$@" 2>&1 | grep -v "^  case=" | tail -6 | cut -c1-400
cd /repo && git checkout -q -- .
git -C /repo status --short | head -3
