#!/bin/bash
# confirm and try the changes a seeding sub-agent left in <worktree>/out/m<k>/ : process_round.sh <ID> <worktree>
# per change: demo passes on the clean worktree, fails with the patch; the test-suite passes with the patch; then the quick check of the
# property is run against the patched worktree (VERIF_REPO) and the outcome printed.  Nothing touches /repo.
ID=$1; WT=$2
for d in $WT/out/m*/; do
  k=$(basename $d); P=$d/patch.diff; D=$d/demo.py
  [ -f $P ] && [ -f $D ] || { echo "$ID $k: incomplete"; continue; }
  cd $WT; git checkout -q -- .
  reb=""; grep -q '^+++ .*\.pyx' $P && reb=1
  PYTHONPATH=$WT /venv/bin/python $D > $d/demo_clean.out 2>&1; c=$?
  git apply $P || { echo "$ID $k: patch does not apply"; continue; }
  [ -n "$reb" ] && /venv/bin/python setup.py -q build_ext --inplace >/dev/null 2>&1
  PYTHONPATH=$WT /venv/bin/python $D > $d/demo_mut.out 2>&1; m=$?
  t=$(/venv/bin/python -m pytest -q -p no:cacheprovider --timeout=900 tests 2>&1 | tail -1)
  out=$(cd /verif && VERIF_REPO=$WT PYTHONPATH=$WT ./check $ID --tier quick --no-evidence 2>&1); rc=$?
  echo "$out" > $d/check.out
  nv=$(echo "$out" | grep -c '^VIOLATION')
  git checkout -q -- .
  [ -n "$reb" ] && /venv/bin/python setup.py -q build_ext --inplace >/dev/null 2>&1
  echo "$ID $k: demo clean=$c mutated=$m | tests: $t | check exit=$rc violations=$nv | files: $(grep '^+++' $P | sed 's/+++ b\///' | tr '\n' ' ')"
done
