#!/usr/bin/env python3
"""regenerate the generated parts of DESIGN.md (between the ASBUILT / SEEDED markers) from the harness metadata
(props/cNN.py META), the last evidence files and seeded/*/meta.json.  Run with /verif/.venv/bin/python."""
import sys, os, json, glob, importlib, re
sys.path.insert(0, '/verif')
os.chdir('/verif')
props = {json.loads(l)['id']: json.loads(l) for l in open('properties.jsonl')}
man = json.load(open('MANIFEST.json'))


def asbuilt():
    out = []
    for pid in sorted(props):
        try:
            mod = importlib.import_module('props.' + pid.lower())
        except Exception as e:
            out.append(f'### {pid} — no harness ({e})\n'); continue
        M = mod.META
        out.append(f'### {pid} {props[pid]["title"]}\n')
        out.append(f'*Decided:* {M["explanation"]}\n')
        out.append('*Functions executed:* ' + '; '.join(f'`{f}`' for f in M['functions']) + '\n')
        b = M['bounds']
        out.append(f'*Bounds (quick):* {b["quick"]}\n')
        out.append(f'*Bounds (thorough):* {b["thorough"]}\n')
        if M.get('assumptions'): out.append('*Assumptions:* ' + '; '.join(M['assumptions']) + '\n')
        if M.get('cuts'): out.append('*Cuts / stubs:* ' + '; '.join(M['cuts']) + '\n')
        if M.get('lemmas'): out.append('*Trusted lemmas:* ' + '; '.join(M['lemmas']) + '\n')
        if M.get('trusted'): out.append('*Trusted components:* ' + '; '.join(M['trusted']) + '\n')
        out.append('*Outside the claim:* ' + '; '.join(M['outside']) + '\n')
        ev = f'evidence/{pid}.json'
        if os.path.exists(ev):
            c = json.load(open(ev)); cov = c['coverage']; s = cov.get('solver', {})
            conc = [p['case'] for p in cov.get('per_case', []) if p.get('concrete_only')]
            out.append(f'*Last recorded run ({c["tier"]}, seed {c["seed"]}):* {cov["cases"]} cases, {cov["paths"]} paths (work-list remaining {cov["worklist_remaining"]}), '
                       f'{cov["obligations"]} obligations ({cov.get("obligations_solver_decided", "?")} decided by solver queries, {cov.get("obligations_folded_to_constant", "?")} folded to True by term simplification, {cov.get("concrete_only_obligations", 0)} from concrete-only cases {cov.get("concrete_only_cases", [])}), {cov["discharged"]} discharged, {cov["inconclusive_unknown"]} unknown, {cov["non_reproducing_models"]} non-reproducing, '
                       f'{cov["aborted_paths"]} aborted paths; solver queries {s.get("queries", "?")} ({s.get("q_interval", "?")} by intervals, {s.get("q_stage0", "?")} stage 0, {s.get("q_stageA", "?")} linear stage, '
                       f'{s.get("q_lin", "?")} linearised, {s.get("q_nl", "?")} nlsat), solver time {s.get("solver_s", "?")} s, wall {c["wall_s"]} s.\n')
    return '\n'.join(out)


def seeded():
    rows = ['| seeded change | file(s) touched | what it breaks (author\'s note, abridged) | detected | by |', '|---|---|---|---|---|']
    for d in sorted(glob.glob('seeded/*/meta.json')):
        m = json.load(open(d)); name = os.path.basename(os.path.dirname(d))
        patch = open(os.path.join(os.path.dirname(d), 'patch.diff')).read()
        files = sorted(set(re.findall(r'^\+\+\+ b/(\S+)', patch, re.M)))
        br = ' '.join(m['breaks'].split())[:260].replace('|', '/')
        rows.append(f'| {name} | {", ".join(os.path.basename(f) for f in files)} | {br} | {m["detected"]} | {str(m["detected_by"]).replace("|", "/")[:260]} |')
    ms = [json.load(open(d)) for d in sorted(glob.glob('seeded/*/meta.json'))]
    late = sum(1 for m in ms if 'after' in str(m['detected']) or 'later' in str(m['detected']))
    missed = sum(1 for m in ms if not str(m['detected']).startswith('yes'))
    head = f'{len(ms)} seeded changes; {len(ms) - missed} detected by the quick tier, {late} of them only after the check was strengthened; {missed} currently missed.\n\n'
    return head + '\n'.join(rows)


def splice(text, tag, body):
    a, b = f'<!-- {tag}-BEGIN -->', f'<!-- {tag}-END -->'
    i, j = text.index(a), text.index(b)
    return text[:i + len(a)] + '\n' + body + '\n' + text[j:]


t = open('DESIGN.md').read()
t = splice(t, 'ASBUILT', asbuilt())
t = splice(t, 'SEEDED', seeded())
open('DESIGN.md', 'w').write(t)
print('DESIGN.md regenerated parts written')
