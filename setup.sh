#!/bin/bash
# Build the overlay venv used by every check (offline; wheels from /opt/veriftools/wheels).
set -e
cd "$(dirname "$0")"
V=/verif/.venv
if [ -x $V/bin/python ] && $V/bin/python -c "import z3, numpy, atomman" 2>/dev/null; then exit 0; fi
rm -rf $V
/venv/bin/python -m venv $V
SP=$V/lib/python3.12/site-packages
echo "import site; site.addsitedir('/venv/lib/python3.12/site-packages')" > $SP/_venv.pth
echo /repo > $SP/_repo.pth
PIP_NO_INDEX=1 $V/bin/pip install -q --no-index --find-links /opt/veriftools/wheels z3-solver cvc5 crosshair-tool >/dev/null 2>&1 || \
PIP_NO_INDEX=1 $V/bin/pip install -q --no-index --find-links /opt/veriftools/wheels z3-solver
$V/bin/python -c "import z3, numpy, atomman; print('setup ok', z3.get_version_string())"
